//! Shared infrastructure of the command-line-level harnesses (C21, C22, C23):
//!
//! * a generator of `pcode::Project` JSON documents of the shape the Ghidra P-Code extractor
//!   (`/repo/src/ghidra/p_code_extractor`) emits (x86-64, gcc calling convention, instruction
//!   level TIDs `instr_<addr>_<pcode index>`, `blk_<addr>`, `sub_<addr>`, omitted null fields),
//! * a generator of matching minimal ELF64 images (ET_EXEC / ET_DYN with two PT_LOAD segments,
//!   ET_REL with `.modinfo` + `.gnu.linkonce.this_module` for kernel modules),
//! * a builder and runner of the REAL `cwe_checker` binary (hidden `--pcode-raw` flag, no Ghidra).
//!
//! Everything random derives from the caller's `Rng`.

use verif_harness::{hex, json, Rng, Value};
use std::io::Read;
use std::path::{Path, PathBuf};
use std::process::{Command, Stdio};
use std::time::{Duration, Instant};

// ------------------------------------------------------------------------------------------
// P-Code level description of a program (resolved to addresses/TIDs by `emit_project`)

#[derive(Clone, Debug)]
pub enum V {
    /// register (name, size)
    Reg(&'static str, u64),
    /// unique-space temporary (id, size)
    Tmp(u64, u64),
    /// constant (value, size)
    Const(u64, u64),
    /// implicit RAM access (address, size)
    Ram(u64, u64),
}

impl V {
    pub fn size(&self) -> u64 {
        match self {
            V::Reg(_, s) | V::Tmp(_, s) | V::Const(_, s) | V::Ram(_, s) => *s,
        }
    }
    fn json(&self) -> Value {
        match self {
            V::Reg(n, s) => json!({"name": n, "size": s, "is_virtual": false}),
            V::Tmp(id, s) => json!({"name": format!("$U{:x}", id), "size": s, "is_virtual": true}),
            V::Const(v, s) => {
                let width = (2 * *s as usize).min(16);
                let masked = if *s >= 8 { *v } else { *v & ((1u64 << (8 * *s)) - 1) };
                json!({"value": format!("{:0w$x}", masked, w = width), "size": s, "is_virtual": false})
            }
            V::Ram(a, s) => json!({"address": format!("{:08x}", a), "size": s, "is_virtual": false}),
        }
    }
}

#[derive(Clone, Debug)]
pub struct POp {
    pub out: Option<V>,
    pub mn: &'static str,
    pub ins: Vec<V>,
}

#[derive(Clone, Debug)]
pub enum Tm {
    /// unconditional jump to block index of the same function
    Jmp(usize),
    /// conditional jump (condition, taken block); falls through to the next block
    Jcc(V, usize),
    /// call of internal function index; returns to next block
    CallSub(usize),
    /// call of extern symbol index; returns to next block unless the symbol is no-return
    CallExt(usize),
    /// indirect call
    CallInd(V),
    /// user-defined P-Code operation ending the instruction; returns to next block
    CallOther(&'static str),
    Ret,
    /// indirect jump with Ghidra's computed-jump target hints (block indices)
    JmpInd(V, Vec<usize>),
    /// tail jump to the entry block of another function (block not part of this function)
    TailJmp(usize),
    /// jump to a block (fn index, blk index) of another function; `shared` = block is also listed here
    JmpForeign(usize, usize),
    /// the block ends because the next address is a jump target: artificial BRANCH
    Fall,
    /// conditional jump in the middle of an instruction's P-Code (e.g. CMOVcc): CBRANCH to the
    /// block after the next one, artificial BRANCH to the next block (same address, TID suffix)
    IntraJcc(V),
    /// jump / call to an address where the extractor found no block / function (dangling TID)
    JmpDangling(u64),
    CallDangling(u64),
}

#[derive(Clone, Debug)]
pub struct Ins {
    pub ops: Vec<POp>,
    pub term: Option<Tm>,
    pub len: u64,
    /// make labels of the terminator point to addresses where the extractor found no block/function:
    /// bit 0 = jump/call target (or an extra computed-jump hint), bit 1 = return / fall-through label,
    /// bit 2 = use an address in the middle of an instruction instead of one behind the code
    pub dangle: u8,
}

#[derive(Clone, Debug, Default)]
pub struct BlockG {
    pub ins: Vec<Ins>,
    /// `Some(k)`: the block starts in the middle of an instruction (after an intra-instruction
    /// jump): TID `blk_<addr>_<k>`, P-Code indices of its first instruction start at `k`
    pub suffix: Option<usize>,
}

#[derive(Clone, Debug)]
pub struct FuncG {
    pub name: String,
    pub blocks: Vec<BlockG>,
    /// blocks of other functions that Ghidra attributes to this function as well: (fn, blk)
    pub shared: Vec<(usize, usize)>,
    pub cconv: Option<&'static str>,
    /// emit the function with an empty block list (Ghidra found no code blocks in its body)
    pub no_blocks: bool,
}

#[derive(Clone, Debug)]
pub struct ExtG {
    pub name: &'static str,
    pub nparams: usize,
    pub ret: bool,
    pub no_return: bool,
    pub var_args: bool,
}

#[derive(Clone, Debug, PartialEq, Eq, Copy)]
pub enum Kind {
    Exec,
    Pie,
    Lkm,
}

#[derive(Clone, Debug)]
pub struct ProgG {
    pub kind: Kind,
    pub funcs: Vec<FuncG>,
    pub exts: Vec<ExtG>,
    pub debug_section: bool,
    /// relocatable objects: which kernel-module marker sections exist (bit 0 `.modinfo`, bit 1 `.gnu.linkonce.this_module`)
    pub markers: u8,
    /// random bits selecting legal variations of section / program header fields (0 = plain image):
    /// sh_addralign ∈ {0,1,2,4,8,16,4096} per loaded section, extra loaded sections (align 0/1 data, SHT_NOBITS,
    /// size 0), non-loaded sections; p_align 0/1/0x1000, extra program headers (GNU_STACK, NOTE, zero-size LOAD)
    pub elf_var: u64,
    /// read-only data placed behind the code (strings), writable data
    pub rodata: Vec<u8>,
    pub data: Vec<u8>,
}

pub const PARAM_REGS: [&str; 6] = ["RDI", "RSI", "RDX", "RCX", "R8", "R9"];
pub const GPR: [&str; 16] = [
    "RAX", "RBX", "RCX", "RDX", "RSI", "RDI", "RBP", "RSP", "R8", "R9", "R10", "R11", "R12", "R13", "R14", "R15",
];

/// (name, base, lsb, size) of the x86-64 registers the generator uses (a subset of Ghidra's list).
pub fn registers() -> Vec<(String, String, u64, u64)> {
    let mut r = Vec::new();
    for (q, d, w, l, h) in [
        ("RAX", "EAX", "AX", "AL", Some("AH")),
        ("RBX", "EBX", "BX", "BL", Some("BH")),
        ("RCX", "ECX", "CX", "CL", Some("CH")),
        ("RDX", "EDX", "DX", "DL", Some("DH")),
        ("RSI", "ESI", "SI", "SIL", None),
        ("RDI", "EDI", "DI", "DIL", None),
        ("RBP", "EBP", "BP", "BPL", None),
        ("RSP", "ESP", "SP", "SPL", None),
    ] {
        r.push((q.to_string(), q.to_string(), 0, 8));
        r.push((d.to_string(), q.to_string(), 0, 4));
        r.push((w.to_string(), q.to_string(), 0, 2));
        r.push((l.to_string(), q.to_string(), 0, 1));
        if let Some(h) = h {
            r.push((h.to_string(), q.to_string(), 1, 1));
        }
    }
    for i in 8..16 {
        let q = format!("R{}", i);
        r.push((q.clone(), q.clone(), 0, 8));
        r.push((format!("R{}D", i), q.clone(), 0, 4));
        r.push((format!("R{}W", i), q.clone(), 0, 2));
        r.push((format!("R{}B", i), q.clone(), 0, 1));
    }
    r.push(("RIP".into(), "RIP".into(), 0, 8));
    r.push(("EIP".into(), "RIP".into(), 0, 4));
    for f in ["CF", "PF", "AF", "ZF", "SF", "DF", "OF"] {
        r.push((f.to_string(), f.to_string(), 0, 1));
    }
    r.push(("FS_OFFSET".into(), "FS_OFFSET".into(), 0, 8));
    for i in 0..8 {
        let z = format!("ZMM{}", i);
        r.push((z.clone(), z.clone(), 0, 64));
        r.push((format!("YMM{}", i), z.clone(), 0, 32));
        r.push((format!("XMM{}", i), z.clone(), 0, 16));
        r.push((format!("XMM{}_Qa", i), z.clone(), 0, 8));
        r.push((format!("XMM{}_Qb", i), z.clone(), 8, 8));
        r.push((format!("XMM{}_Da", i), z.clone(), 0, 4));
    }
    r
}

fn sub_reg(base: &'static str, size: u64) -> &'static str {
    const T: [(&str, &str, &str, &str); 16] = [
        ("RAX", "EAX", "AX", "AL"),
        ("RBX", "EBX", "BX", "BL"),
        ("RCX", "ECX", "CX", "CL"),
        ("RDX", "EDX", "DX", "DL"),
        ("RSI", "ESI", "SI", "SIL"),
        ("RDI", "EDI", "DI", "DIL"),
        ("RBP", "EBP", "BP", "BPL"),
        ("RSP", "ESP", "SP", "SPL"),
        ("R8", "R8D", "R8W", "R8B"),
        ("R9", "R9D", "R9W", "R9B"),
        ("R10", "R10D", "R10W", "R10B"),
        ("R11", "R11D", "R11W", "R11B"),
        ("R12", "R12D", "R12W", "R12B"),
        ("R13", "R13D", "R13W", "R13B"),
        ("R14", "R14D", "R14W", "R14B"),
        ("R15", "R15D", "R15W", "R15B"),
    ];
    for t in T.iter() {
        if t.0 == base {
            return match size {
                8 => t.0,
                4 => t.1,
                2 => t.2,
                _ => t.3,
            };
        }
    }
    base
}

pub fn reg(base: &'static str, size: u64) -> V {
    V::Reg(sub_reg(base, size), size)
}

// ------------------------------------------------------------------------------------------
// layout and emission

pub struct Layout {
    pub image_base: u64,
    pub text_addr: u64,
    /// ins_addr[f][b][i]
    pub ins_addr: Vec<Vec<Vec<u64>>>,
    pub ext_addr: Vec<u64>,
    pub rodata_addr: u64,
    pub data_addr: u64,
    pub text_len: u64,
}

pub const TEXT_OFF: u64 = 0x1000;
pub const ALIGNS: [u64; 8] = [0, 1, 2, 4, 8, 16, 4096, 16];
fn var_align(elf_var: u64, slot: u32) -> u64 {
    if elf_var == 0 {
        16
    } else {
        ALIGNS[((elf_var >> (3 * slot)) & 7) as usize]
    }
}
/// the alignment the loader model applies (`sh_addralign` 0 and 1 both mean "no constraint")
fn eff_align(a: u64) -> u64 {
    a.max(1).next_power_of_two()
}

/// Ghidra's image base for the three kinds of ELF files
pub fn image_base(kind: Kind) -> u64 {
    match kind {
        Kind::Exec => 0x400000,
        Kind::Pie => 0x100000,
        Kind::Lkm => 0x100000,
    }
}

pub fn layout(p: &ProgG) -> Layout {
    let ib = image_base(p.kind);
    // kernel modules: sections are laid out from address 0 (+ image base); .text is the first one
    let text_addr = if p.kind == Kind::Lkm { ib } else { ib + TEXT_OFF };
    let mut a = text_addr;
    // PLT-like thunk area first
    let mut ext_addr = Vec::new();
    for _ in p.exts.iter() {
        ext_addr.push(a);
        a += 0x10;
    }
    let mut ins_addr = Vec::new();
    for f in p.funcs.iter() {
        a = (a + 15) & !15;
        let mut fb = Vec::new();
        for b in f.blocks.iter() {
            let mut bi = Vec::new();
            for i in b.ins.iter() {
                bi.push(a);
                a += i.len;
            }
            fb.push(bi);
        }
        ins_addr.push(fb);
    }
    a = (a + 15) & !15;
    let rodata_addr = a;
    a += p.rodata.len() as u64;
    let text_len = a - text_addr;
    let data_addr = match p.kind {
        Kind::Lkm => {
            let al = eff_align(var_align(p.elf_var, 1));
            (a + al - 1) / al * al
        }
        _ => ((a + 0xfff) & !0xfff) + 0x1000,
    };
    Layout { image_base: ib, text_addr, ins_addr, ext_addr, rodata_addr, data_addr, text_len }
}

fn a8(a: u64) -> String {
    format!("{:08x}", a)
}
fn tid(prefix: &str, a: u64) -> Value {
    json!({"id": format!("{}_{}", prefix, a8(a)), "address": a8(a)})
}
fn itid(a: u64, idx: usize) -> Value {
    json!({"id": format!("instr_{}_{}", a8(a), idx), "address": a8(a)})
}

fn def_json(a: u64, idx: usize, op: &POp) -> Value {
    let mut rhs = serde_json::Map::new();
    rhs.insert("mnemonic".into(), json!(op.mn));
    for (k, v) in op.ins.iter().enumerate() {
        rhs.insert(format!("input{}", k), v.json());
    }
    let mut term = serde_json::Map::new();
    if let Some(o) = &op.out {
        term.insert("lhs".into(), o.json());
    }
    term.insert("rhs".into(), Value::Object(rhs));
    json!({"tid": itid(a, idx), "term": Value::Object(term)})
}

fn blk_start(l: &Layout, f: usize, b: usize) -> u64 {
    l.ins_addr[f][b][0]
}

fn blk_tid(p: &ProgG, l: &Layout, f: usize, b: usize) -> Value {
    let a = blk_start(l, f, b);
    match p.funcs[f].blocks[b].suffix {
        Some(k) => json!({"id": format!("blk_{}_{}", a8(a), k), "address": a8(a)}),
        None => tid("blk", a),
    }
}

fn emit_block(p: &ProgG, l: &Layout, f: usize, b: usize) -> Value {
    let blk = &p.funcs[f].blocks[b];
    let mut defs = Vec::new();
    let mut jmps = Vec::new();
    let nblocks = p.funcs[f].blocks.len();
    let next_blk_addr = |_: ()| -> Option<u64> { if b + 1 < nblocks { Some(blk_start(l, f, b + 1)) } else { None } };
    let mut last_def: Option<(u64, usize)> = None;
    for (i, ins) in blk.ins.iter().enumerate() {
        let a = l.ins_addr[f][b][i];
        let mut idx = if i == 0 { blk.suffix.unwrap_or(0) } else { 0 };
        for op in ins.ops.iter() {
            defs.push(def_json(a, idx, op));
            last_def = Some((a, idx));
            idx += 1;
        }
        let fall = a + ins.len;
        let first_jmp = jmps.len();
        if let Some(t) = &ins.term {
            let ret_label = |no_ret: bool| -> Option<Value> {
                if no_ret {
                    None
                } else {
                    Some(json!({"Direct": tid("blk", fall)}))
                }
            };
            match t {
                Tm::Jmp(tb) => jmps.push(json!({"tid": itid(a, idx), "term": {"mnemonic": "BRANCH",
                    "goto": {"Direct": blk_tid(p, l, f, *tb)}}})),
                Tm::TailJmp(tf) => jmps.push(json!({"tid": itid(a, idx), "term": {"mnemonic": "BRANCH",
                    "goto": {"Direct": tid("blk", blk_start(l, *tf, 0))}}})),
                Tm::JmpForeign(tf, tb) => jmps.push(json!({"tid": itid(a, idx), "term": {"mnemonic": "BRANCH",
                    "goto": {"Direct": blk_tid(p, l, *tf, *tb)}}})),
                Tm::Jcc(c, tb) => {
                    jmps.push(json!({"tid": itid(a, idx), "term": {"mnemonic": "CBRANCH",
                        "goto": {"Direct": blk_tid(p, l, f, *tb)}, "condition": c.json()}}));
                    jmps.push(json!({"tid": itid(a, idx + 1), "term": {"mnemonic": "BRANCH",
                        "goto": {"Direct": tid("blk", fall)}}}));
                }
                Tm::CallSub(tf) => {
                    let mut call = serde_json::Map::new();
                    call.insert("target".into(), json!({"Direct": tid("sub", blk_start(l, *tf, 0))}));
                    if let Some(r) = ret_label(false) {
                        call.insert("return".into(), r);
                    }
                    jmps.push(json!({"tid": itid(a, idx), "term": {"mnemonic": "CALL", "call": Value::Object(call)}}));
                }
                Tm::CallExt(e) => {
                    let mut call = serde_json::Map::new();
                    call.insert("target".into(), json!({"Direct": tid("sub", l.ext_addr[*e])}));
                    if let Some(r) = ret_label(p.exts[*e].no_return) {
                        call.insert("return".into(), r);
                    }
                    jmps.push(json!({"tid": itid(a, idx), "term": {"mnemonic": "CALL", "call": Value::Object(call)}}));
                }
                Tm::CallInd(v) => {
                    jmps.push(json!({"tid": itid(a, idx), "term": {"mnemonic": "CALLIND",
                        "call": {"target": {"Indirect": v.json()}, "return": {"Direct": tid("blk", fall)}}}}));
                }
                Tm::CallOther(s) => {
                    jmps.push(json!({"tid": itid(a, idx), "term": {"mnemonic": "CALLOTHER",
                        "call": {"return": {"Direct": tid("blk", fall)}, "call_string": s}}}));
                }
                Tm::Ret => jmps.push(json!({"tid": itid(a, idx), "term": {"mnemonic": "RETURN",
                    "goto": {"Indirect": V::Reg("RIP", 8).json()}}})),
                Tm::JmpInd(v, hints) => {
                    let hs: Vec<String> = hints.iter().map(|h| a8(blk_start(l, f, *h))).collect();
                    jmps.push(json!({"tid": itid(a, idx), "term": {"mnemonic": "BRANCHIND",
                        "goto": {"Indirect": v.json()}, "target_hints": hs}}));
                }
                Tm::IntraJcc(c) => {
                    let skip = if b + 2 < nblocks { blk_tid(p, l, f, b + 2) } else { tid("blk", fall) };
                    let next = if b + 1 < nblocks { blk_tid(p, l, f, b + 1) } else { tid("blk", fall) };
                    jmps.push(json!({"tid": itid(a, idx), "term": {"mnemonic": "CBRANCH",
                        "goto": {"Direct": skip}, "condition": c.json()}}));
                    jmps.push(json!({"tid": itid(a, idx + 1), "term": {"mnemonic": "BRANCH", "goto": {"Direct": next}}}));
                }
                Tm::JmpDangling(x) => jmps.push(json!({"tid": itid(a, idx), "term": {"mnemonic": "BRANCH",
                    "goto": {"Direct": tid("blk", l.text_addr + l.text_len + 0x100 + *x)}}})),
                Tm::CallDangling(x) => jmps.push(json!({"tid": itid(a, idx), "term": {"mnemonic": "CALL",
                    "call": {"target": {"Direct": tid("sub", l.text_addr + l.text_len + 0x100 + *x)}, "return": {"Direct": tid("blk", fall)}}}})),
                Tm::Fall => {
                    if let Some(na) = next_blk_addr(()) {
                        let (ja, jidx) = match last_def {
                            Some((da, di)) => (da, di + 1),
                            None => (a, 1),
                        };
                        jmps.push(json!({"tid": itid(ja, jidx), "term": {"mnemonic": "BRANCH",
                            "goto": {"Direct": tid("blk", na)}}}));
                    }
                }
            }
        }
        if ins.dangle != 0 {
            // an address without block/function: behind the code, or in the middle of this instruction
            let da = if ins.dangle & 4 != 0 && ins.len > 1 { a + 1 } else { l.text_addr + l.text_len + 0x200 + (a & 0xf8) };
            let n = jmps.len();
            for (k, j) in jmps[first_jmp..n].iter_mut().enumerate() {
                let mn = j["term"]["mnemonic"].as_str().unwrap_or("").to_string();
                let t = &mut j["term"];
                if ins.dangle & 1 != 0 {
                    match mn.as_str() {
                        "BRANCH" | "CBRANCH" if k == 0 => t["goto"] = json!({"Direct": tid("blk", da)}),
                        "CALL" => t["call"]["target"] = json!({"Direct": tid("sub", da)}),
                        "BRANCHIND" => {
                            if let Some(h) = t["target_hints"].as_array_mut() {
                                h.push(json!(a8(da)));
                            }
                        }
                        _ => {}
                    }
                }
                if ins.dangle & 2 != 0 {
                    match mn.as_str() {
                        "BRANCH" if k == 1 => t["goto"] = json!({"Direct": tid("blk", da + 8)}),
                        "CALL" | "CALLIND" | "CALLOTHER" => {
                            if t["call"].get("return").is_some() {
                                t["call"]["return"] = json!({"Direct": tid("blk", da + 8)});
                            }
                        }
                        _ => {}
                    }
                }
            }
        }
    }
    json!({"tid": blk_tid(p, l, f, b), "term": {"defs": defs, "jmps": jmps}})
}

pub fn emit_project(p: &ProgG, l: &Layout) -> Value {
    let mut subs = Vec::new();
    for (fi, f) in p.funcs.iter().enumerate() {
        let mut blocks = Vec::new();
        for bi in 0..f.blocks.len() {
            if !f.no_blocks {
                blocks.push(emit_block(p, l, fi, bi));
            }
        }
        for (sf, sb) in f.shared.iter() {
            blocks.push(emit_block(p, l, *sf, *sb));
        }
        let mut term = serde_json::Map::new();
        term.insert("name".into(), json!(f.name));
        term.insert("blocks".into(), Value::Array(blocks));
        if let Some(c) = f.cconv {
            term.insert("calling_convention".into(), json!(c));
        }
        subs.push(json!({"tid": tid("sub", blk_start(l, fi, 0)), "term": Value::Object(term)}));
    }
    let mut exts = Vec::new();
    for (ei, e) in p.exts.iter().enumerate() {
        let mut args = Vec::new();
        for k in 0..e.nparams.min(6) {
            args.push(json!({"var": V::Reg(PARAM_REGS[k], 8).json(), "intent": "INPUT"}));
        }
        if e.ret {
            args.push(json!({"var": V::Reg("RAX", 8).json(), "intent": "OUTPUT"}));
        }
        exts.push(json!({
            "tid": tid("sub", l.ext_addr[ei]),
            "addresses": [a8(l.ext_addr[ei])],
            "name": e.name,
            "calling_convention": "__stdcall",
            "arguments": args,
            "no_return": e.no_return,
            "has_var_args": e.var_args,
        }));
    }
    let regs: Vec<Value> = registers()
        .into_iter()
        .map(|(r, b, lsb, s)| json!({"register": r, "base_register": b, "lsb": lsb, "size": s}))
        .collect();
    let entry: Vec<Value> = if p.funcs.is_empty() { vec![] } else { vec![tid("sub", blk_start(l, 0, 0))] };
    // the two prototypes of Ghidra's x86-64 gcc compiler specification the generator uses
    let cconv = |name: &str| {
        if name == "MSABI" {
            json!({
                "calling_convention": name,
                "integer_parameter_register": ["RCX", "RDX", "R8", "R9"],
                "float_parameter_register": ["XMM0_Qa", "XMM1_Qa", "XMM2_Qa", "XMM3_Qa"],
                "return_register": ["RAX"],
                "float_return_register": ["XMM0_Qa"],
                "unaffected_register": ["RBX", "RBP", "RDI", "RSI", "RSP", "R12", "R13", "R14", "R15"],
                "killed_by_call_register": ["RAX", "RCX", "RDX", "R8", "R9", "R10", "R11"],
            })
        } else {
            json!({
                "calling_convention": name,
                "integer_parameter_register": ["RDI", "RSI", "RDX", "RCX", "R8", "R9"],
                "float_parameter_register": ["XMM0_Qa", "XMM1_Qa", "XMM2_Qa", "XMM3_Qa", "XMM4_Qa", "XMM5_Qa", "XMM6_Qa", "XMM7_Qa"],
                "return_register": ["RAX"],
                "float_return_register": ["XMM0_Qa"],
                "unaffected_register": ["RBX", "RSP", "RBP", "R12", "R13", "R14", "R15"],
                "killed_by_call_register": ["RAX", "RCX", "RDX", "RSI", "RDI", "R8", "R9", "R10", "R11"],
            })
        }
    };
    json!({
        "program": {
            "tid": {"id": format!("prog_{}", a8(l.image_base)), "address": a8(l.image_base)},
            "term": {
                "subs": subs,
                "extern_symbols": exts,
                "entry_points": entry,
                "image_base": format!("{:x}", l.image_base),
            }
        },
        "stack_pointer_register": V::Reg("RSP", 8).json(),
        "register_properties": regs,
        "cpu_architecture": "x86_64",
        "register_calling_convention": [cconv("__stdcall"), cconv("MSABI")],
        "datatype_properties": {
            "char_size": 1, "double_size": 8, "float_size": 4, "integer_size": 4, "long_double_size": 16,
            "long_long_size": 8, "long_size": 8, "pointer_size": 8, "short_size": 2
        }
    })
}

// ------------------------------------------------------------------------------------------
// ELF images

fn w16(v: &mut Vec<u8>, x: u16) {
    v.extend_from_slice(&x.to_le_bytes());
}
fn w32(v: &mut Vec<u8>, x: u32) {
    v.extend_from_slice(&x.to_le_bytes());
}
fn w64(v: &mut Vec<u8>, x: u64) {
    v.extend_from_slice(&x.to_le_bytes());
}

struct Sec {
    name: &'static str,
    ty: u32,
    flags: u64,
    addr: u64,
    off: u64,
    size: u64,
    align: u64,
}

/// Build the ELF file matching the layout. The "code" bytes are filler (the analyzer never
/// decodes machine code; it only reads the image for global memory accesses).
pub fn emit_elf(p: &ProgG, l: &Layout, rng: &mut Rng) -> Vec<u8> {
    let text_len = l.text_len as usize;
    let mut text = vec![0u8; text_len];
    for b in text.iter_mut() {
        *b = if rng.chance(1, 4) { 0x90 } else { rng.below(256) as u8 };
    }
    let ro_off = (l.rodata_addr - l.text_addr) as usize;
    text[ro_off..ro_off + p.rodata.len()].copy_from_slice(&p.rodata);
    let data = p.data.clone();
    let is_rel = p.kind == Kind::Lkm;
    let ev = p.elf_var;
    let extra_ph: u16 = if ev == 0 { 0 } else { ((ev >> 40) & 3) as u16 };
    let phnum: u16 = if is_rel { 0 } else { 2 + extra_ph };
    let ehsize = 64u64;
    let phsize = 56u64;
    let mut out: Vec<u8> = Vec::new();
    // file layout: ehdr | phdrs | pad to 0x1000 (exec) | text | data | extra sections | shstrtab | shdrs
    let text_off: u64 = if is_rel { 0x40 } else { TEXT_OFF };
    let data_off = text_off + text_len as u64;
    let mut secs: Vec<Sec> = vec![Sec { name: "", ty: 0, flags: 0, addr: 0, off: 0, size: 0, align: 0 }];
    let base_v = if is_rel { 0 } else { l.image_base };
    let vtext = if is_rel { 0 } else { l.text_addr - if p.kind == Kind::Pie { l.image_base } else { 0 } };
    let vdata = if is_rel { 0 } else { l.data_addr - if p.kind == Kind::Pie { l.image_base } else { 0 } };
    let _ = base_v;
    secs.push(Sec { name: ".text", ty: 1, flags: 0x6, addr: vtext, off: text_off, size: text_len as u64, align: var_align(ev, 0) });
    secs.push(Sec { name: ".data", ty: 1, flags: 0x3, addr: vdata, off: data_off, size: data.len() as u64, align: var_align(ev, 1) });
    let mut extra: Vec<u8> = Vec::new();
    let extra_off = data_off + data.len() as u64;
    // executables / shared objects carry the marker sections only on request (bit 2), in the section table only
    let with_markers = is_rel || p.markers & 4 != 0;
    if with_markers && p.markers & 1 != 0 {
        let modinfo = b"license=GPL\0name=verif\0";
        secs.push(Sec { name: ".modinfo", ty: 1, flags: 0x2, addr: 0, off: extra_off + extra.len() as u64, size: modinfo.len() as u64, align: 1 });
        extra.extend_from_slice(modinfo);
        while extra.len() % 8 != 0 {
            extra.push(0);
        }
    }
    if with_markers && p.markers & 2 != 0 {
        secs.push(Sec { name: ".gnu.linkonce.this_module", ty: 1, flags: 0x3, addr: 0, off: extra_off + extra.len() as u64, size: 64, align: 8 });
        extra.extend_from_slice(&[0u8; 64]);
    }
    if ev != 0 {
        // further sections behind the data (they do not move the addresses the program uses)
        if ev & (1 << 20) != 0 {
            // loaded read-only data without alignment constraint (sh_addralign 0 or 1), at an odd file offset
            extra.push(0x55);
            let n = 9 + ((ev >> 24) & 15) as usize;
            secs.push(Sec { name: ".rodata.str1.1", ty: 1, flags: 0x2, addr: 0, off: extra_off + extra.len() as u64, size: n as u64, align: (ev >> 21) & 1 });
            extra.extend(std::iter::repeat(0x41u8).take(n - 1));
            extra.push(0);
        }
        if ev & (1 << 22) != 0 {
            // SHT_NOBITS: occupies no file space
            secs.push(Sec { name: ".bss", ty: 8, flags: 0x3, addr: 0, off: extra_off + extra.len() as u64, size: 0x30 + ((ev >> 28) & 0xff), align: var_align(ev, 2) });
        }
        if ev & (1 << 23) != 0 {
            // loaded section of size 0
            secs.push(Sec { name: ".init.text", ty: 1, flags: 0x6, addr: 0, off: extra_off + extra.len() as u64, size: 0, align: var_align(ev, 3) });
        }
        if ev & (1 << 36) != 0 {
            secs.push(Sec { name: ".data..read_mostly", ty: 1, flags: 0x3, addr: 0, off: extra_off + extra.len() as u64, size: 24, align: var_align(ev, 4) });
            extra.extend_from_slice(&[7u8; 24]);
        }
        if ev & (1 << 37) != 0 {
            // not loaded
            secs.push(Sec { name: ".comment", ty: 1, flags: 0x30, addr: 0, off: extra_off + extra.len() as u64, size: 12, align: 1 });
            extra.extend_from_slice(b"GCC: (x) 1.0");
        }
    }
    if p.debug_section {
        secs.push(Sec { name: ".debug_info", ty: 1, flags: 0, addr: 0, off: extra_off + extra.len() as u64, size: 16, align: 1 });
        extra.extend_from_slice(&[0x11u8; 16]);
    }
    // section name string table
    let mut shstr: Vec<u8> = vec![0];
    let mut name_off = Vec::new();
    let names: Vec<&str> = secs.iter().map(|s| s.name).chain(std::iter::once(".shstrtab")).collect();
    for n in names.iter() {
        if n.is_empty() {
            name_off.push(0u32);
        } else {
            name_off.push(shstr.len() as u32);
            shstr.extend_from_slice(n.as_bytes());
            shstr.push(0);
        }
    }
    let shstr_off = extra_off + extra.len() as u64;
    secs.push(Sec { name: ".shstrtab", ty: 3, flags: 0, addr: 0, off: shstr_off, size: shstr.len() as u64, align: 1 });
    let shoff = (shstr_off + shstr.len() as u64 + 7) & !7;
    // ELF header
    out.extend_from_slice(&[0x7f, b'E', b'L', b'F', 2, 1, 1, 0, 0, 0, 0, 0, 0, 0, 0, 0]);
    w16(&mut out, match p.kind { Kind::Exec => 2, Kind::Pie => 3, Kind::Lkm => 1 });
    w16(&mut out, 62);
    w32(&mut out, 1);
    w64(&mut out, if is_rel || p.funcs.is_empty() { 0 } else { vtext + (l.ins_addr[0][0][0] - l.text_addr) });
    w64(&mut out, if is_rel { 0 } else { ehsize });
    w64(&mut out, shoff);
    w32(&mut out, 0);
    w16(&mut out, ehsize as u16);
    w16(&mut out, phsize as u16);
    w16(&mut out, phnum);
    w16(&mut out, 64);
    w16(&mut out, secs.len() as u16);
    w16(&mut out, (secs.len() - 1) as u16);
    if !is_rel {
        // PT_LOAD text (R+X) — includes the headers like a real linker output does
        let hdr_v = vtext - TEXT_OFF;
        w32(&mut out, 1);
        w32(&mut out, 5);
        w64(&mut out, 0);
        w64(&mut out, hdr_v);
        w64(&mut out, hdr_v);
        w64(&mut out, TEXT_OFF + text_len as u64);
        w64(&mut out, TEXT_OFF + text_len as u64);
        w64(&mut out, if ev == 0 { 0x1000 } else { [0x1000u64, 0, 1, 0x1000][((ev >> 42) & 3) as usize] });
        // PT_LOAD data (RW), memsz > filesz (bss)
        w32(&mut out, 1);
        w32(&mut out, 6);
        w64(&mut out, data_off);
        w64(&mut out, vdata);
        w64(&mut out, vdata);
        w64(&mut out, data.len() as u64);
        w64(&mut out, data.len() as u64 + 0x40);
        w64(&mut out, if ev == 0 { 0x1000 } else { [0x1000u64, 0, 1, 8][((ev >> 44) & 3) as usize] });
        for k in 0..extra_ph {
            match (k + ((ev >> 46) & 3) as u16) % 3 {
                0 => {
                    // PT_GNU_STACK
                    w32(&mut out, 0x6474e551);
                    w32(&mut out, 6);
                    for _ in 0..5 {
                        w64(&mut out, 0);
                    }
                    w64(&mut out, 0x10);
                }
                1 => {
                    // PT_LOAD of size 0 behind the data segment
                    w32(&mut out, 1);
                    w32(&mut out, 4);
                    w64(&mut out, data_off + data.len() as u64);
                    w64(&mut out, vdata + 0x2000);
                    w64(&mut out, vdata + 0x2000);
                    w64(&mut out, 0);
                    w64(&mut out, 0);
                    w64(&mut out, 0);
                }
                _ => {
                    // PT_LOAD with p_filesz = 0 < p_memsz (pure bss segment)
                    w32(&mut out, 1);
                    w32(&mut out, 6);
                    w64(&mut out, data_off + data.len() as u64);
                    w64(&mut out, vdata + 0x3000);
                    w64(&mut out, vdata + 0x3000);
                    w64(&mut out, 0);
                    w64(&mut out, 0x80);
                    w64(&mut out, 1);
                }
            }
        }
    }
    while (out.len() as u64) < text_off {
        out.push(0);
    }
    out.extend_from_slice(&text);
    out.extend_from_slice(&data);
    out.extend_from_slice(&extra);
    out.extend_from_slice(&shstr);
    while (out.len() as u64) < shoff {
        out.push(0);
    }
    for (i, s) in secs.iter().enumerate() {
        w32(&mut out, name_off[i]);
        w32(&mut out, s.ty);
        w64(&mut out, s.flags);
        w64(&mut out, s.addr);
        w64(&mut out, s.off);
        w64(&mut out, s.size);
        w32(&mut out, 0);
        w32(&mut out, 0);
        w64(&mut out, s.align);
        w64(&mut out, 0);
    }
    out
}

// ------------------------------------------------------------------------------------------
// random program generator

pub struct Gen<'a> {
    pub rng: &'a mut Rng,
    uniq: u64,
    pub prog: ProgG,
    /// addresses of string constants are only known after layout; strings are referenced
    /// through `V::Const(RODATA_TAG + offset)` / `DATA_TAG` placeholders patched in `finish`.
    pub features: Vec<String>,
}

pub const RODATA_TAG: u64 = 0x7e57_0000_0000;
pub const DATA_TAG: u64 = 0x7e58_0000_0000;

pub fn op(out: V, mn: &'static str, ins: Vec<V>) -> POp {
    POp { out: Some(out), mn, ins }
}
fn c8(v: u64) -> V {
    V::Const(v, 8)
}
fn r8(n: &'static str) -> V {
    V::Reg(n, 8)
}
fn space() -> V {
    V::Const(0x1b1, 8)
}

impl<'a> Gen<'a> {
    pub fn new(rng: &'a mut Rng, kind: Kind) -> Gen<'a> {
        Gen {
            rng,
            uniq: 0x1000,
            prog: ProgG { kind, funcs: vec![], exts: vec![], debug_section: false, markers: 3, elf_var: 0, rodata: vec![], data: vec![] },
            features: vec![],
        }
    }
    pub fn tmp(&mut self, size: u64) -> V {
        self.uniq += 0x80 * (1 + self.rng.below(3));
        V::Tmp(self.uniq, size)
    }
    pub fn len(&mut self) -> u64 {
        1 + self.rng.below(7)
    }
    pub fn ext(&mut self, name: &'static str) -> usize {
        if let Some(i) = self.prog.exts.iter().position(|e| e.name == name) {
            return i;
        }
        let (nparams, ret, no_return, var_args) = match name {
            "exit" | "abort" | "__stack_chk_fail" => (1, false, true, false),
            "printf" | "scanf" | "__isoc99_scanf" => (1, true, false, true),
            "sprintf" | "sscanf" => (2, true, false, true),
            "snprintf" => (3, true, false, true),
            "malloc" | "free" | "strlen" | "system" | "chroot" | "chdir" | "umask" | "srand" | "time" | "setuid"
            | "puts" | "atoi" | "getenv" | "xmalloc" | "strdup" | "__kmalloc" | "kfree" | "add_mtd_device" | "tmpfile" => (1, true, false, false),
            "rand" | "getchar" => (0, true, false, false),
            "strcpy" | "strcat" | "access" | "open" | "realloc" | "calloc" | "fopen" | "fgets" | "strcmp" => (2, true, false, false),
            "memcpy" | "strncmp" | "strncpy" | "memset" | "ioctl" | "read" | "write" | "memcmp" | "recv" => (3, true, false, false),
            _ => (2, true, false, false),
        };
        self.prog.exts.push(ExtG { name, nparams, ret, no_return, var_args });
        self.prog.exts.len() - 1
    }
    pub fn rostr(&mut self, s: &str) -> V {
        let off = self.prog.rodata.len() as u64;
        self.prog.rodata.extend_from_slice(s.as_bytes());
        self.prog.rodata.push(0);
        V::Const(RODATA_TAG + off, 8)
    }
    /// raw bytes in read-only memory (not necessarily UTF-8, not necessarily NUL-terminated)
    pub fn robytes(&mut self, b: &[u8]) -> V {
        let off = self.prog.rodata.len() as u64;
        self.prog.rodata.extend_from_slice(b);
        V::Const(RODATA_TAG + off, 8)
    }
    pub fn datastr(&mut self, s: &str) -> V {
        let off = self.prog.data.len() as u64;
        self.prog.data.extend_from_slice(s.as_bytes());
        self.prog.data.push(0);
        while self.prog.data.len() % 8 != 0 {
            self.prog.data.push(0);
        }
        V::Const(DATA_TAG + off, 8)
    }

    // ---- instruction templates (P-Code as Ghidra's x86-64 SLEIGH produces it, simplified)

    pub fn i(&mut self, ops: Vec<POp>) -> Ins {
        Ins { ops, term: None, len: self.len(), dangle: 0 }
    }
    pub fn mov_rr(&mut self, d: &'static str, s: &'static str) -> Ins {
        self.i(vec![op(r8(d), "COPY", vec![r8(s)])])
    }
    pub fn mov_ri(&mut self, d: &'static str, v: V) -> Ins {
        self.i(vec![op(r8(d), "COPY", vec![v])])
    }
    /// MOV r32, imm32 (zero-extends into the 64-bit register)
    pub fn mov_r32i(&mut self, d: &'static str, v: u64) -> Ins {
        self.i(vec![op(reg(d, 4), "COPY", vec![V::Const(v, 4)]), op(r8(d), "INT_ZEXT", vec![reg(d, 4)])])
    }
    pub fn mov_r32r32(&mut self, d: &'static str, s: &'static str) -> Ins {
        self.i(vec![op(reg(d, 4), "COPY", vec![reg(s, 4)]), op(r8(d), "INT_ZEXT", vec![reg(d, 4)])])
    }
    pub fn flags_result(&mut self, res: V) -> Vec<POp> {
        let s = res.size();
        let t1 = self.tmp(s);
        let t2 = self.tmp(s);
        let t3 = self.tmp(s);
        vec![
            op(V::Reg("SF", 1), "INT_SLESS", vec![res.clone(), V::Const(0, s)]),
            op(V::Reg("ZF", 1), "INT_EQUAL", vec![res.clone(), V::Const(0, s)]),
            op(t1.clone(), "INT_AND", vec![res, V::Const(0xff, s)]),
            op(t2.clone(), "POPCOUNT", vec![t1]),
            op(t3.clone(), "INT_AND", vec![t2, V::Const(1, s)]),
            op(V::Reg("PF", 1), "INT_EQUAL", vec![t3, V::Const(0, s)]),
        ]
    }
    pub fn arith(&mut self, mn: &'static str, d: V, s: V) -> Ins {
        let mut ops = Vec::new();
        match mn {
            "INT_ADD" => {
                ops.push(op(V::Reg("CF", 1), "INT_CARRY", vec![d.clone(), s.clone()]));
                ops.push(op(V::Reg("OF", 1), "INT_SCARRY", vec![d.clone(), s.clone()]));
            }
            "INT_SUB" => {
                ops.push(op(V::Reg("CF", 1), "INT_LESS", vec![d.clone(), s.clone()]));
                ops.push(op(V::Reg("OF", 1), "INT_SBORROW", vec![d.clone(), s.clone()]));
            }
            _ => {
                ops.push(op(V::Reg("CF", 1), "COPY", vec![V::Const(0, 1)]));
                ops.push(op(V::Reg("OF", 1), "COPY", vec![V::Const(0, 1)]));
            }
        }
        ops.push(op(d.clone(), mn, vec![d.clone(), s]));
        if let V::Reg(n, 4) = &d {
            // 32-bit destination: upper half cleared
            if let Some((_, base, _, _)) = registers().into_iter().find(|(r, _, _, sz)| r == n && *sz == 4) {
                let b: &'static str = GPR.iter().find(|g| **g == base).copied().unwrap_or("RAX");
                ops.push(op(r8(b), "INT_ZEXT", vec![d.clone()]));
            }
        }
        let fl = self.flags_result(d);
        ops.extend(fl);
        self.i(ops)
    }
    pub fn cmp(&mut self, a: V, b: V) -> Ins {
        let s = a.size();
        let t = self.tmp(s);
        let mut ops = vec![
            op(V::Reg("CF", 1), "INT_LESS", vec![a.clone(), b.clone()]),
            op(V::Reg("OF", 1), "INT_SBORROW", vec![a.clone(), b.clone()]),
            op(t.clone(), "INT_SUB", vec![a, b]),
        ];
        ops.extend(self.flags_result(t));
        self.i(ops)
    }
    pub fn test(&mut self, a: V, b: V) -> Ins {
        let s = a.size();
        let t = self.tmp(s);
        let mut ops = vec![
            op(V::Reg("CF", 1), "COPY", vec![V::Const(0, 1)]),
            op(V::Reg("OF", 1), "COPY", vec![V::Const(0, 1)]),
            op(t.clone(), "INT_AND", vec![a, b]),
        ];
        ops.extend(self.flags_result(t));
        self.i(ops)
    }
    /// address computation base+off into a temporary; returns (ops, tmp)
    pub fn ea(&mut self, base: &'static str, off: i64) -> (Vec<POp>, V) {
        let t = self.tmp(8);
        (vec![op(t.clone(), "INT_ADD", vec![r8(base), c8(off as u64)])], t)
    }
    pub fn load(&mut self, d: &'static str, size: u64, base: &'static str, off: i64) -> Ins {
        let (mut ops, t) = self.ea(base, off);
        if size == 8 {
            ops.push(op(r8(d), "LOAD", vec![space(), t]));
        } else if size == 4 {
            ops.push(op(reg(d, 4), "LOAD", vec![space(), t]));
            ops.push(op(r8(d), "INT_ZEXT", vec![reg(d, 4)]));
        } else {
            ops.push(op(reg(d, size), "LOAD", vec![space(), t]));
        }
        self.i(ops)
    }
    pub fn store(&mut self, base: &'static str, off: i64, val: V) -> Ins {
        let (mut ops, t) = self.ea(base, off);
        let t2 = self.tmp(val.size());
        ops.push(op(t2.clone(), "COPY", vec![val]));
        ops.push(POp { out: None, mn: "STORE", ins: vec![space(), t, t2] });
        self.i(ops)
    }
    pub fn lea(&mut self, d: &'static str, base: &'static str, off: i64) -> Ins {
        let (mut ops, t) = self.ea(base, off);
        ops.push(op(r8(d), "COPY", vec![t]));
        self.i(ops)
    }
    pub fn push(&mut self, s: &'static str) -> Ins {
        let t = self.tmp(8);
        self.i(vec![
            op(t.clone(), "COPY", vec![r8(s)]),
            op(r8("RSP"), "INT_SUB", vec![r8("RSP"), c8(8)]),
            POp { out: None, mn: "STORE", ins: vec![space(), r8("RSP"), t] },
        ])
    }
    pub fn pop(&mut self, d: &'static str) -> Ins {
        self.i(vec![op(r8(d), "LOAD", vec![space(), r8("RSP")]), op(r8("RSP"), "INT_ADD", vec![r8("RSP"), c8(8)])])
    }
    fn call_ops(&mut self) -> Vec<POp> {
        // RSP = RSP - 8; *RSP = return address (patched constant is irrelevant for the analyzer)
        vec![
            op(r8("RSP"), "INT_SUB", vec![r8("RSP"), c8(8)]),
            POp { out: None, mn: "STORE", ins: vec![space(), r8("RSP"), c8(0x100000 + self.rng.below(0x1000))] },
        ]
    }
    pub fn call_ops_pub(&mut self) -> Vec<POp> {
        self.call_ops()
    }
    pub fn call_ext(&mut self, name: &'static str) -> Ins {
        let e = self.ext(name);
        let ops = self.call_ops();
        Ins { ops, term: Some(Tm::CallExt(e)), len: 5, dangle: 0 }
    }
    pub fn call_sub(&mut self, f: usize) -> Ins {
        let ops = self.call_ops();
        Ins { ops, term: Some(Tm::CallSub(f)), len: 5, dangle: 0 }
    }
    pub fn call_ind(&mut self, v: V) -> Ins {
        let ops = self.call_ops();
        Ins { ops, term: Some(Tm::CallInd(v)), len: 2, dangle: 0 }
    }
    pub fn ret(&mut self) -> Ins {
        Ins {
            ops: vec![op(r8("RIP"), "LOAD", vec![space(), r8("RSP")]), op(r8("RSP"), "INT_ADD", vec![r8("RSP"), c8(8)])],
            term: Some(Tm::Ret),
            len: 1,
            dangle: 0,
        }
    }
    pub fn term(&mut self, t: Tm) -> Ins {
        Ins { ops: vec![], term: Some(t), len: 2, dangle: 0 }
    }

    /// A random "ordinary" instruction over general purpose registers and the stack frame.
    pub fn random_ins(&mut self) -> Ins {
        const R: [&str; 12] = ["RAX", "RBX", "RCX", "RDX", "RSI", "RDI", "R8", "R9", "R10", "R12", "R13", "R14"];
        let d = *self.rng.pick(&R);
        let s = *self.rng.pick(&R);
        match self.rng.below(24) {
            0 => self.mov_rr(d, s),
            1 => {
                let v = self.rng.biased(64);
                self.mov_ri(d, c8(v))
            }
            2 => {
                let v = self.rng.biased(32);
                self.mov_r32i(d, v)
            }
            3 => self.mov_r32r32(d, s),
            4 => {
                let v = self.rng.biased(8);
                self.arith("INT_ADD", r8(d), c8(v))
            }
            5 => self.arith("INT_SUB", r8(d), r8(s)),
            6 => {
                let mn = *self.rng.pick(&["INT_AND", "INT_OR", "INT_XOR"]);
                self.arith(mn, reg(d, 4), reg(s, 4))
            }
            7 => self.arith("INT_XOR", r8(d), r8(d)),
            8 => {
                let off = -8 * (1 + self.rng.below(12) as i64);
                let base = if self.rng.chance(1, 2) { "RBP" } else { "RSP" };
                let off = if base == "RSP" { -off } else { off };
                let size = *self.rng.pick(&[1u64, 2, 4, 8, 8]);
                self.load(d, size, base, off)
            }
            9 => {
                let off = -8 * (1 + self.rng.below(12) as i64);
                let base = if self.rng.chance(1, 2) { "RBP" } else { "RSP" };
                let off = if base == "RSP" { -off } else { off };
                let size = *self.rng.pick(&[1u64, 2, 4, 8, 8]);
                self.store(base, off, reg(s, size))
            }
            10 => {
                let off = self.rng.range(-64, 64);
                self.load(d, 8, s, off)
            }
            11 => {
                let off = self.rng.range(-64, 64);
                let v = if self.rng.chance(1, 2) { r8(d) } else { c8(self.rng.biased(16)) };
                self.store(s, off, v)
            }
            12 => {
                let off = 8 * self.rng.range(-10, 10);
                let base = if self.rng.chance(1, 2) { "RBP" } else { "RSP" };
                self.lea(d, base, off)
            }
            13 => {
                // MOVZX / MOVSX r64, r8/r16
                let sz = *self.rng.pick(&[1u64, 2]);
                let mn = if self.rng.chance(1, 2) { "INT_ZEXT" } else { "INT_SEXT" };
                self.i(vec![op(r8(d), mn, vec![reg(s, sz)])])
            }
            14 => {
                // MOV AH-like sub-register writes
                let h = *self.rng.pick(&[("AH", "AL"), ("BH", "BL"), ("CH", "DL"), ("DH", "CL")]);
                self.i(vec![op(V::Reg(h.0, 1), "COPY", vec![V::Reg(h.1, 1)])])
            }
            15 => {
                // global variable access through implicit RAM varnodes
                let a = DATA_TAG + 8 * self.rng.below(4);
                if self.rng.chance(1, 2) {
                    self.i(vec![op(r8(d), "COPY", vec![V::Ram(a, 8)])])
                } else {
                    self.i(vec![op(V::Ram(a, 8), "COPY", vec![r8(s)])])
                }
            }
            16 => {
                // IMUL r64, r64
                let t = self.tmp(16);
                let t2 = self.tmp(16);
                let t3 = self.tmp(16);
                self.i(vec![
                    op(t.clone(), "INT_SEXT", vec![r8(d)]),
                    op(t2.clone(), "INT_SEXT", vec![r8(s)]),
                    op(t3.clone(), "INT_MULT", vec![t, t2]),
                    op(r8(d), "INT_MULT", vec![r8(d), r8(s)]),
                    op(V::Reg("CF", 1), "INT_NOTEQUAL", vec![t3.clone(), t3]),
                ])
            }
            17 => {
                // SHL/SHR/SAR by constant
                let mn = *self.rng.pick(&["INT_LEFT", "INT_RIGHT", "INT_SRIGHT"]);
                let k = self.rng.below(64);
                self.i(vec![op(r8(d), mn, vec![r8(d), V::Const(k, 4)])])
            }
            18 => {
                // SETcc
                let f = *self.rng.pick(&["ZF", "CF", "SF"]);
                if self.rng.chance(1, 2) {
                    self.i(vec![op(reg(d, 1), "COPY", vec![V::Reg(f, 1)])])
                } else {
                    self.i(vec![op(reg(d, 1), "BOOL_NEGATE", vec![V::Reg(f, 1)])])
                }
            }
            19 => {
                // SSE scalar double arithmetic / conversions
                let x = *self.rng.pick(&["XMM0_Qa", "XMM1_Qa", "XMM2_Qa"]);
                let y = *self.rng.pick(&["XMM0_Qa", "XMM1_Qa", "XMM3_Qa"]);
                match self.rng.below(4) {
                    0 => {
                        let mn = *self.rng.pick(&["FLOAT_ADD", "FLOAT_MULT", "FLOAT_DIV", "FLOAT_SUB"]);
                        self.i(vec![op(V::Reg(x, 8), mn, vec![V::Reg(x, 8), V::Reg(y, 8)])])
                    }
                    1 => self.i(vec![op(V::Reg(x, 8), "INT2FLOAT", vec![reg(s, 4)])]),
                    2 => self.i(vec![op(r8(d), "TRUNC", vec![V::Reg(y, 8)])]),
                    _ => self.i(vec![op(V::Reg(x, 8), "FLOAT_SQRT", vec![V::Reg(y, 8)])]),
                }
            }
            20 => {
                // NEG / NOT
                let mn = *self.rng.pick(&["INT_2COMP", "INT_NEGATE"]);
                self.i(vec![op(r8(d), mn, vec![r8(d)])])
            }
            21 => {
                // SUBPIECE / PIECE forms (e.g. CDQE, MOV r16)
                if self.rng.chance(1, 2) {
                    let k = self.rng.below(3);
                    self.i(vec![op(reg(d, 2), "SUBPIECE", vec![reg(s, 4), V::Const(k, 4)])])
                } else {
                    let t = self.tmp(16);
                    self.i(vec![op(t.clone(), "PIECE", vec![r8(d), r8(s)]), op(r8(d), "SUBPIECE", vec![t, V::Const(4, 4)])])
                }
            }
            22 => {
                // DIV
                let mn = *self.rng.pick(&["INT_DIV", "INT_REM", "INT_SDIV", "INT_SREM"]);
                self.i(vec![op(r8(d), mn, vec![r8(d), r8(s)])])
            }
            _ => {
                // stack canary load: RAX = *(FS_OFFSET + 0x28)
                let t = self.tmp(8);
                self.i(vec![op(t.clone(), "INT_ADD", vec![r8("FS_OFFSET"), c8(0x28)]), op(r8(d), "LOAD", vec![space(), t])])
            }
        }
    }

    pub fn prologue(&mut self, frame: u64) -> Vec<Ins> {
        let mut v = vec![self.push("RBP"), self.mov_rr("RBP", "RSP")];
        if frame > 0 {
            v.push(self.arith("INT_SUB", r8("RSP"), c8(frame)));
        }
        v
    }
    pub fn epilogue(&mut self, frame: u64) -> Vec<Ins> {
        let mut v = Vec::new();
        if frame > 0 {
            if self.rng.chance(1, 2) {
                // LEAVE
                v.push(self.i(vec![op(r8("RSP"), "COPY", vec![r8("RBP")]), op(r8("RBP"), "LOAD", vec![space(), r8("RSP")]),
                    op(r8("RSP"), "INT_ADD", vec![r8("RSP"), c8(8)])]));
            } else {
                v.push(self.arith("INT_ADD", r8("RSP"), c8(frame)));
                v.push(self.pop("RBP"));
            }
        } else {
            v.push(self.pop("RBP"));
        }
        v.push(self.ret());
        v
    }

    /// Replace the string/data placeholders by real addresses and produce project JSON + ELF.
    pub fn finish(mut self) -> Input {
        if self.prog.data.len() < 64 {
            self.prog.data.resize(64, 0);
        }
        if self.rng.chance(3, 4) {
            self.prog.elf_var = self.rng.next() | (1 << 63);
        }
        let l = layout(&self.prog);
        let patch = |v: &mut V| match v {
            V::Const(x, 8) if *x >= DATA_TAG && *x < DATA_TAG + 0x1_0000_0000 => *x = l.data_addr + (*x - DATA_TAG),
            V::Const(x, 8) if *x >= RODATA_TAG && *x < RODATA_TAG + 0x1_0000_0000 => *x = l.rodata_addr + (*x - RODATA_TAG),
            V::Ram(x, _) if *x >= DATA_TAG && *x < DATA_TAG + 0x1_0000_0000 => *x = l.data_addr + (*x - DATA_TAG),
            _ => {}
        };
        for f in self.prog.funcs.iter_mut() {
            for b in f.blocks.iter_mut() {
                for i in b.ins.iter_mut() {
                    for o in i.ops.iter_mut() {
                        if let Some(out) = o.out.as_mut() {
                            patch(out);
                        }
                        for x in o.ins.iter_mut() {
                            patch(x);
                        }
                    }
                }
            }
        }
        let project = emit_project(&self.prog, &l);
        let elf = emit_elf(&self.prog, &l, self.rng);
        let mut sections = vec![".text".to_string(), ".data".to_string()];
        let with_markers = self.prog.kind == Kind::Lkm || self.prog.markers & 4 != 0;
        if with_markers && self.prog.markers & 1 != 0 {
            sections.push(".modinfo".into());
        }
        if with_markers && self.prog.markers & 2 != 0 {
            sections.push(".gnu.linkonce.this_module".into());
        }
        if self.prog.debug_section {
            sections.push(".debug_info".into());
        }
        sections.push(".shstrtab".into());
        let etype = match self.prog.kind { Kind::Exec => "exec", Kind::Pie => "dyn", Kind::Lkm => "rel" };
        Input {
            project: project.to_string(),
            elf,
            is_lkm: self.prog.kind == Kind::Lkm && self.prog.markers & 3 == 3,
            elf_facts: json!({"type": etype, "sections": sections}),
            features: self.features,
        }
    }
}

/// One generated analyzer input.
#[derive(Clone)]
pub struct Input {
    pub project: String,
    pub elf: Vec<u8>,
    pub is_lkm: bool,
    /// what the generator put into the ELF file: {"type": "rel"|"exec"|"dyn", "sections": [names]}
    pub elf_facts: Value,
    pub features: Vec<String>,
}

impl Input {
    pub fn to_json(&self) -> Value {
        json!({"proj": self.project, "elf": hex(&self.elf), "lkm": self.is_lkm, "elf_facts": self.elf_facts})
    }
    pub fn from_json(v: &Value) -> Input {
        let h = v["elf"].as_str().unwrap_or("");
        let elf = (0..h.len() / 2).map(|i| u8::from_str_radix(&h[2 * i..2 * i + 2], 16).unwrap_or(0)).collect();
        Input {
            project: v["proj"].as_str().unwrap_or("").to_string(),
            elf,
            is_lkm: v["lkm"].as_bool().unwrap_or(false),
            elf_facts: v.get("elf_facts").cloned().unwrap_or(Value::Null),
            features: vec![],
        }
    }
}

// ------------------------------------------------------------------------------------------
// gadgets: small code sequences that make one specific check fire

pub const GADGETS: [&str; 19] = [
    "CWE676", "CWE782", "CWE426", "CWE332", "CWE243", "CWE367", "CWE560", "CWE467", "CWE215", "CWE476", "CWE190",
    "CWE134", "CWE252", "CWE337", "CWE416", "CWE119", "CWE789", "Memory", "CWE78",
];

impl<'a> Gen<'a> {
    /// Append the instructions of gadget `g` as a sequence of blocks (every call ends a block).
    /// Returns straight-line blocks; the last block is left open (no terminator).
    pub fn gadget(&mut self, g: &str, lkm: bool) -> Vec<Ins> {
        let mut v: Vec<Ins> = Vec::new();
        match g {
            "CWE676" => {
                v.push(self.lea("RDI", "RBP", -0x40));
                let s = self.rostr("hello");
                v.push(self.mov_ri("RSI", s));
                v.push(self.call_ext("strcpy"));
            }
            "CWE782" => {
                v.push(self.mov_r32i("RDI", 3));
                v.push(self.mov_r32i("RSI", 0x5401));
                v.push(self.call_ext("ioctl"));
            }
            "CWE426" => {
                v.push(self.mov_r32i("RDI", 0));
                v.push(self.call_ext("setuid"));
                let s = self.rostr("ls");
                v.push(self.mov_ri("RDI", s));
                v.push(self.call_ext("system"));
            }
            "CWE332" => {
                v.push(self.call_ext("rand"));
            }
            "CWE243" => {
                let s = self.rostr("/tmp/jail");
                v.push(self.mov_ri("RDI", s));
                v.push(self.call_ext("chroot"));
            }
            "CWE367" => {
                let s = self.rostr("/tmp/file");
                v.push(self.mov_ri("RDI", s.clone()));
                v.push(self.mov_r32i("RSI", 0));
                v.push(self.call_ext("access"));
                v.push(self.mov_ri("RDI", s));
                v.push(self.mov_r32i("RSI", 2));
                v.push(self.call_ext("open"));
            }
            "CWE560" => {
                v.push(self.mov_r32i("RDI", 0o666));
                v.push(self.call_ext("umask"));
            }
            "CWE467" => {
                v.push(self.lea("RDI", "RBP", -0x30));
                v.push(self.lea("RSI", "RBP", -0x20));
                v.push(self.mov_r32i("RDX", 8));
                v.push(self.call_ext("strncmp"));
            }
            "CWE215" => {
                self.prog.debug_section = true;
            }
            "CWE476" => {
                v.push(self.mov_r32i("RDI", 0x20));
                v.push(self.call_ext(if lkm { "__kmalloc" } else { "malloc" }));
                v.push(self.store("RAX", 0, V::Const(0x41, 8)));
            }
            "CWE190" => {
                // malloc(n * 4) with n from a parameter
                v.push(self.load("RAX", 8, "RBP", -0x18));
                v.push(self.i(vec![op(r8("RDI"), "INT_MULT", vec![r8("RAX"), c8(4)])]));
                v.push(self.call_ext("malloc"));
            }
            "CWE134" => {
                // printf(buf) with buf in writable memory
                let s = self.datastr("%s%s");
                v.push(self.mov_ri("RDI", s));
                v.push(self.mov_r32i("RAX", 0));
                v.push(self.call_ext("printf"));
            }
            "CWE252" => {
                let s = self.rostr("42");
                v.push(self.mov_ri("RDI", s));
                v.push(self.call_ext(if lkm { "add_mtd_device" } else { "atoi" }));
                v.push(self.mov_r32i("RAX", 0));
            }
            "CWE337" => {
                v.push(self.mov_r32i("RDI", 0));
                v.push(self.call_ext("time"));
                v.push(self.mov_r32r32("RDI", "RAX"));
                v.push(self.call_ext("srand"));
            }
            "CWE416" => {
                v.push(self.mov_r32i("RDI", 0x10));
                v.push(self.call_ext("malloc"));
                v.push(self.mov_rr("RBX", "RAX"));
                v.push(self.mov_rr("RDI", "RAX"));
                v.push(self.call_ext("free"));
                v.push(self.load("RAX", 8, "RBX", 0));
            }
            "CWE119" => {
                v.push(self.mov_r32i("RDI", 8));
                v.push(self.call_ext("malloc"));
                v.push(self.store("RAX", 0x20, V::Const(1, 8)));
            }
            "CWE789" => {
                v.push(self.mov_r32i("RDI", 0x7000_0000));
                v.push(self.call_ext("malloc"));
            }
            "Memory" => {
                // load through a pointer that is certainly (close to) NULL: reported by the pointer inference itself
                v.push(self.mov_r32i("RCX", 0));
                v.push(self.load("RDX", 8, "RCX", 0x10));
            }
            "CWE78" => {
                // sprintf(buf, "cat %s", user); system(buf)
                v.push(self.lea("RDI", "RBP", -0x60));
                let s = self.rostr("cat %s");
                v.push(self.mov_ri("RSI", s));
                v.push(self.load("RDX", 8, "RBP", -0x18));
                v.push(self.mov_r32i("RAX", 0));
                v.push(self.call_ext("sprintf"));
                v.push(self.lea("RDI", "RBP", -0x60));
                v.push(self.call_ext("system"));
            }
            _ => {}
        }
        v
    }
}

pub const DANGLING_KINDS: [&str; 9] = [
    "branch", "cbranch_target", "cbranch_fall", "call_target", "call_return", "callext_return", "callind_return",
    "callother_return", "hints",
];
pub const UAF_VARIANTS: [&str; 5] = ["deep2", "deep3", "double", "sibling", "twoobjects"];
pub const DIVERGE_CHECKS: [&str; 9] = ["CWE367", "CWE476", "CWE416", "CWE119", "CWE252", "CWE337", "CWE78", "CWE190", "CWE243"];

impl<'a> Gen<'a> {
    /// (source part, sink part) of a check trigger; the sink part is instantiated once per path
    fn diverge_src(&mut self, check: &str) -> Vec<Ins> {
        let mut v = Vec::new();
        match check {
            "CWE367" => {
                let s = self.rostr("/tmp/file");
                v.push(self.mov_ri("RDI", s));
                v.push(self.mov_r32i("RSI", 0));
                v.push(self.call_ext("access"));
            }
            "CWE476" => {
                v.push(self.mov_r32i("RDI", 0x20));
                v.push(self.call_ext("malloc"));
                v.push(self.mov_rr("R12", "RAX"));
            }
            "CWE416" => {
                v.push(self.mov_r32i("RDI", 0x10));
                v.push(self.call_ext("malloc"));
                v.push(self.mov_rr("R12", "RAX"));
                v.push(self.mov_rr("RDI", "RAX"));
                v.push(self.call_ext("free"));
            }
            "CWE119" => {
                v.push(self.mov_r32i("RDI", 8));
                v.push(self.call_ext("malloc"));
                v.push(self.mov_rr("R12", "RAX"));
            }
            "CWE252" => {
                let s = self.rostr("42");
                v.push(self.mov_ri("RDI", s));
                v.push(self.call_ext("atoi"));
            }
            "CWE337" => {
                v.push(self.mov_r32i("RDI", 0));
                v.push(self.call_ext("time"));
                v.push(self.mov_rr("R12", "RAX"));
            }
            "CWE78" => {
                v.push(self.lea("RDI", "RBP", -0x60));
                let s = self.rostr("cat %s");
                v.push(self.mov_ri("RSI", s));
                v.push(self.load("RDX", 8, "RBP", -0x18));
                v.push(self.mov_r32i("RAX", 0));
                v.push(self.call_ext("sprintf"));
            }
            "CWE190" => {
                v.push(self.load("RAX", 8, "RBP", -0x18));
                v.push(self.i(vec![op(r8("R12"), "INT_MULT", vec![r8("RAX"), c8(4)])]));
            }
            _ => {
                // CWE243: chroot, then chdir on one path only / on both
                let s = self.rostr("/tmp/jail");
                v.push(self.mov_ri("RDI", s));
                v.push(self.call_ext("chroot"));
            }
        }
        v
    }
    fn diverge_sink(&mut self, check: &str, which: usize) -> Vec<Ins> {
        let mut v = Vec::new();
        match check {
            "CWE367" => {
                let s = self.rostr("/tmp/file");
                v.push(self.mov_ri("RDI", s));
                v.push(self.mov_r32i("RSI", 2 + which as u64));
                v.push(self.call_ext("open"));
            }
            "CWE476" => v.push(self.store("R12", 8 * which as i64, V::Const(0x41, 8))),
            "CWE416" => v.push(self.load("RAX", 8, "R12", 8 * which as i64)),
            "CWE119" => v.push(self.store("R12", 0x20 + 8 * which as i64, V::Const(1, 8))),
            "CWE252" => v.push(self.mov_r32i("RAX", which as u64)),
            "CWE337" => {
                v.push(self.mov_r32r32("RDI", "R12"));
                v.push(self.call_ext("srand"));
            }
            "CWE78" => {
                v.push(self.lea("RDI", "RBP", -0x60));
                v.push(self.call_ext("system"));
            }
            "CWE190" => {
                v.push(self.mov_rr("RDI", "R12"));
                v.push(self.call_ext(if which == 0 { "malloc" } else { "xmalloc" }));
            }
            _ => {
                if which == 0 {
                    let s = self.rostr("/");
                    v.push(self.mov_ri("RDI", s));
                    v.push(self.call_ext("chdir"));
                } else {
                    v.push(self.mov_r32i("RAX", 0));
                }
            }
        }
        v
    }
    /// `src; if (unrelated flag) { sink0 } else { sink1 }; (sometimes a third sink after the join); return`
    pub fn diverge_fn(&mut self, check: &str, fname: &str) -> FuncG {
        let mut seg0 = self.prologue(0x70);
        seg0.push(self.store("RBP", -0x18, V::Reg("RDI", 8)));
        seg0.push(self.mov_rr("RBX", "RSI"));
        seg0.extend(self.diverge_src(check));
        seg0.push(self.test(reg("RBX", 4), reg("RBX", 4)));
        let sink_a = self.diverge_sink(check, 0);
        let sink_b = self.diverge_sink(check, 1);
        let third = self.rng.chance(1, 3);
        let mut seg_j = if third { self.diverge_sink(check, 2) } else { vec![] };
        seg_j.push(self.mov_r32i("RAX", 0));
        let mut ep = self.epilogue(0x70);
        let last = ep.pop().unwrap();
        seg_j.extend(ep);
        // placeholder targets are patched below
        let t0 = self.term(Tm::Jcc(V::Reg("ZF", 1), 0));
        let ta = self.term(Tm::Jmp(0));
        let mut tb = self.term(Tm::Fall);
        tb.len = 0;
        let b0 = to_blocks(seg0, t0);
        let ba = to_blocks(sink_a, ta);
        // a path that ends with a call simply returns into the join block
        let bb = if sink_b.last().map(|i| i.term.is_some()).unwrap_or(false) {
            let mut sb = sink_b;
            let l = sb.pop().unwrap();
            to_blocks(sb, l)
        } else {
            to_blocks(sink_b, tb)
        };
        let bj = to_blocks(seg_j, last);
        let start_a = b0.len();
        let start_b = start_a + ba.len();
        let start_j = start_b + bb.len();
        let mut blocks: Vec<BlockG> = Vec::new();
        blocks.extend(b0);
        blocks.extend(ba);
        blocks.extend(bb);
        blocks.extend(bj);
        let _ = start_a;
        if let Some(Tm::Jcc(_, t)) = blocks[start_a - 1].ins.last_mut().and_then(|i| i.term.as_mut()) {
            *t = start_b;
        }
        if let Some(Tm::Jmp(t)) = blocks[start_b - 1].ins.last_mut().and_then(|i| i.term.as_mut()) {
            *t = start_j;
        }
        FuncG { name: fname.to_string(), blocks, shared: vec![], cconv: Some("__stdcall"), no_blocks: false }
    }
}

/// split a straight-line instruction list into blocks after every terminator; the open tail gets `tail`
pub fn to_blocks(ins: Vec<Ins>, tail: Ins) -> Vec<BlockG> {
    let mut blocks = vec![BlockG::default()];
    for i in ins.into_iter().chain(std::iter::once(tail)) {
        let ends = i.term.is_some();
        blocks.last_mut().unwrap().ins.push(i);
        if ends {
            blocks.push(BlockG::default());
        }
    }
    if blocks.last().unwrap().ins.is_empty() {
        blocks.pop();
    }
    blocks
}

// ------------------------------------------------------------------------------------------
// the real CLI

pub fn repo() -> String {
    std::env::var("VERIF_REPO").unwrap_or_else(|_| "/repo".into())
}
pub fn cache() -> String {
    std::env::var("VERIF_CACHE").unwrap_or_else(|_| "/verif/.cache".into())
}

/// (Re)build the real `cwe_checker` binary from `$VERIF_REPO`'s (default /repo) current working
/// tree into `$CARGO_TARGET_DIR` (set by `check`: the shared cache for /repo, a private directory
/// for a mutation worktree); a no-op when up to date. Fails loudly.
pub fn build_cli() -> Result<PathBuf, String> {
    let target = std::env::var("CARGO_TARGET_DIR").unwrap_or_else(|_| format!("{}/target", cache()));
    // the shared cache is serialised with the other checks' cargo builds; a private target directory is not
    let lock = if target.starts_with(&cache()) { format!("{}/lock.cargo", cache()) } else { format!("{}.cli-lock", target.trim_end_matches('/')) };
    let script = format!(
        "cd {} && CARGO_NET_OFFLINE=true CARGO_TARGET_DIR={} RUSTFLAGS='-Awarnings --cfg cwe_checker_verif' \
         cargo build --release --offline -p cwe_checker 2>&1",
        repo(),
        target
    );
    let out = Command::new("flock").arg(&lock).arg("sh").arg("-c").arg(&script).output().map_err(|e| format!("spawn: {e}"))?;
    if !out.status.success() {
        return Err(format!("cargo build of the cwe_checker CLI failed:\n{}", String::from_utf8_lossy(&out.stdout)));
    }
    let bin = PathBuf::from(format!("{}/release/cwe_checker", target));
    if !bin.exists() {
        return Err(format!("{} missing after build", bin.display()));
    }
    Ok(bin)
}

#[derive(Clone, Debug)]
pub struct RunResult {
    /// exit code; None = killed by signal or timeout
    pub exit: Option<i32>,
    pub timed_out: bool,
    pub stdout: String,
    pub stderr: String,
    pub ms: u64,
}

/// Run a command with a wall-clock limit, capturing stdout/stderr.
pub fn run_limited(mut cmd: Command, limit: Duration) -> RunResult {
    let t0 = Instant::now();
    cmd.stdin(Stdio::null()).stdout(Stdio::piped()).stderr(Stdio::piped());
    cmd.env("RUST_BACKTRACE", "0");
    let mut child = match cmd.spawn() {
        Ok(c) => c,
        Err(e) => {
            return RunResult { exit: None, timed_out: false, stdout: String::new(), stderr: format!("spawn failed: {e}"), ms: 0 }
        }
    };
    let mut so = child.stdout.take().unwrap();
    let mut se = child.stderr.take().unwrap();
    let h1 = std::thread::spawn(move || {
        let mut b = Vec::new();
        let _ = so.read_to_end(&mut b);
        b
    });
    let h2 = std::thread::spawn(move || {
        let mut b = Vec::new();
        let _ = se.read_to_end(&mut b);
        b
    });
    let mut timed_out = false;
    let status = loop {
        match child.try_wait() {
            Ok(Some(s)) => break Some(s),
            Ok(None) => {
                if t0.elapsed() > limit {
                    let _ = child.kill();
                    timed_out = true;
                    break child.wait().ok();
                }
                std::thread::sleep(Duration::from_millis(2));
            }
            Err(_) => break None,
        }
    };
    let stdout = String::from_utf8_lossy(&h1.join().unwrap_or_default()).to_string();
    let stderr = String::from_utf8_lossy(&h2.join().unwrap_or_default()).to_string();
    RunResult {
        exit: if timed_out { None } else { status.and_then(|s| s.code()) },
        timed_out,
        stdout,
        stderr,
        ms: t0.elapsed().as_millis() as u64,
    }
}

/// A scratch directory holding the files of one input.
pub struct Files {
    pub dir: PathBuf,
    pub elf: PathBuf,
    pub pcode: PathBuf,
}

pub fn scratch_root() -> PathBuf {
    let p = PathBuf::from(format!("{}/work/cli-{}", cache(), std::process::id()));
    let _ = std::fs::create_dir_all(&p);
    p
}

pub fn write_input(root: &Path, id: usize, inp: &Input) -> Files {
    let dir = root.join(format!("in{}", id));
    let _ = std::fs::create_dir_all(&dir);
    let elf = dir.join("input.elf");
    let pcode = dir.join("pcode.json");
    std::fs::write(&elf, &inp.elf).expect("write elf");
    std::fs::write(&pcode, &inp.project).expect("write pcode");
    Files { dir, elf, pcode }
}

pub fn config_path(lkm: bool) -> String {
    if lkm {
        format!("{}/src/lkm_config.json", repo())
    } else {
        format!("{}/src/config.json", repo())
    }
}

/// `cwe_checker <elf> --pcode-raw <json> --config <cfg> --json --quiet [--partial P]`
pub fn run_cli(cli: &Path, f: &Files, config: &str, partial: Option<&str>, limit_s: u64) -> RunResult {
    let mut cmd = Command::new(cli);
    cmd.arg(&f.elf).arg("--pcode-raw").arg(&f.pcode).arg("--config").arg(config).arg("--json").arg("--quiet");
    if let Some(p) = partial {
        // `--partial=` form so that values starting with '-' or empty values are passed through
        cmd.arg(format!("--partial={}", p));
    }
    run_limited(cmd, Duration::from_secs(limit_s))
}

pub fn run_module_versions(cli: &Path) -> RunResult {
    let mut cmd = Command::new(cli);
    cmd.arg("--module-versions");
    run_limited(cmd, Duration::from_secs(20))
}

/// Run `jobs` on `threads` worker threads, preserving order of results.
pub fn parallel<T: Send + Sync, R: Send>(jobs: &[T], threads: usize, f: impl Fn(usize, &T) -> R + Sync) -> Vec<R> {
    let next = std::sync::atomic::AtomicUsize::new(0);
    let results: std::sync::Mutex<Vec<Option<R>>> = std::sync::Mutex::new((0..jobs.len()).map(|_| None).collect());
    std::thread::scope(|s| {
        for _ in 0..threads.max(1) {
            s.spawn(|| loop {
                let i = next.fetch_add(1, std::sync::atomic::Ordering::SeqCst);
                if i >= jobs.len() {
                    break;
                }
                let r = f(i, &jobs[i]);
                results.lock().unwrap()[i] = Some(r);
            });
        }
    });
    results.into_inner().unwrap().into_iter().map(|r| r.unwrap()).collect()
}

pub fn threads() -> usize {
    std::thread::available_parallelism().map(|n| n.get()).unwrap_or(4).min(16)
}

/// names of the checks occurring in a JSON warning array (sorted, deduplicated); None if not parseable
pub fn warning_names(stdout: &str) -> Option<Vec<String>> {
    let v: Value = serde_json::from_str(stdout).ok()?;
    let mut names: Vec<String> = v.as_array()?.iter().filter_map(|w| w["name"].as_str().map(|s| s.to_string())).collect();
    names.sort();
    names.dedup();
    Some(names)
}

// ------------------------------------------------------------------------------------------
// whole-program generators

/// A program whose `main` runs the given gadgets one after the other (each in its own helper
/// function when `split` is set), plus `extra_funcs` random functions.
pub fn gen_gadget_program(rng: &mut Rng, kind: Kind, gadgets: &[&str], split: bool, extra_funcs: usize, kernel_names: bool, markers: u8) -> Input {
    let lkm = kernel_names;
    let mut g = Gen::new(rng, kind);
    g.prog.markers = markers;
    let mut funcs: Vec<FuncG> = Vec::new();
    // function 0 = main; helper functions follow
    let n_helpers = if split { gadgets.len() } else { 0 };
    let mut main_ins: Vec<Ins> = g.prologue(0x70);
    main_ins.push(g.store("RBP", -0x18, V::Reg("RDI", 8)));
    let mut helper_bodies: Vec<Vec<Ins>> = Vec::new();
    for (k, name) in gadgets.iter().enumerate() {
        let body = g.gadget(name, lkm);
        g.features.push(format!("gadget:{}", name));
        if split {
            main_ins.push(g.call_sub(1 + k));
            let mut h = g.prologue(0x70);
            h.push(g.store("RBP", -0x18, V::Reg("RDI", 8)));
            h.extend(body);
            helper_bodies.push(h);
        } else {
            main_ins.extend(body);
            for _ in 0..g.rng.below(3) {
                let i = g.random_ins();
                main_ins.push(i);
            }
        }
    }
    main_ins.push(g.mov_r32i("RAX", 0));
    let mut ep = g.epilogue(0x70);
    let last = ep.pop().unwrap();
    main_ins.extend(ep);
    funcs.push(FuncG { name: if kind == Kind::Lkm { "init_module".into() } else { "main".into() }, blocks: to_blocks(main_ins, last), shared: vec![], cconv: Some("__stdcall"), no_blocks: false });
    for (k, mut h) in helper_bodies.into_iter().enumerate() {
        let mut ep = g.epilogue(0x70);
        let last = ep.pop().unwrap();
        h.extend(ep);
        funcs.push(FuncG { name: format!("helper_{}", k), blocks: to_blocks(h, last), shared: vec![], cconv: Some("__stdcall"), no_blocks: false });
    }
    let first_extra = 1 + n_helpers;
    for k in 0..extra_funcs {
        let f = gen_random_function(&mut g, first_extra + k, first_extra + extra_funcs, lkm);
        funcs.push(f);
    }
    g.prog.funcs = funcs;
    fix_shared(&mut g.prog);
    g.finish()
}

const EXT_POOL: [&str; 26] = [
    "malloc", "free", "strcpy", "strlen", "memcpy", "printf", "puts", "exit", "strncmp", "read", "write", "open",
    "access", "realloc", "calloc", "getenv", "system", "sprintf", "scanf", "atoi", "fopen", "fgets", "memset", "abort",
    "strcat", "recv",
];
const EXT_POOL_LKM: [&str; 8] = ["__kmalloc", "kfree", "memcpy", "strcpy", "strlen", "memset", "printk", "strncmp"];

/// Random function `idx` of a program with `nfuncs` functions: a random CFG with loops, calls,
/// conditional branches on flags, indirect jumps/calls, shared tail blocks and tail jumps.
pub fn gen_random_function(g: &mut Gen, idx: usize, nfuncs: usize, lkm: bool) -> FuncG {
    let nblocks = 1 + g.rng.below(7) as usize;
    let frame = 8 * g.rng.below(16);
    let mut blocks: Vec<BlockG> = Vec::new();
    for b in 0..nblocks {
        let mut ins: Vec<Ins> = Vec::new();
        if b == 0 && g.rng.chance(1, 3) {
            // accesses relative to the stack pointer at function entry: return address slot ([RSP+0]),
            // stack parameters ([RSP+8], …), followed by dereferences of the loaded values (nested parameters)
            const R: [&str; 6] = ["RBX", "RDI", "R12", "R14", "RAX", "RCX"];
            let r1 = *g.rng.pick(&R);
            let r2 = *g.rng.pick(&R);
            let off = 8 * g.rng.below(4) as i64;
            ins.push(g.load(r1, 8, "RSP", off));
            if g.rng.chance(2, 3) {
                let k = 8 * g.rng.below(5) as i64;
                ins.push(g.load(r2, 8, r1, k));
                if g.rng.chance(1, 2) {
                    let k2 = 8 * g.rng.below(5) as i64;
                    ins.push(g.store(r2, k2, V::Reg("R15", 8)));
                }
            }
        }
        if b == 0 && g.rng.chance(5, 6) {
            ins.extend(g.prologue(frame));
        }
        for _ in 0..g.rng.below(7) {
            let i = g.random_ins();
            ins.push(i);
        }
        let last = b + 1 == nblocks;
        let target = g.rng.below(nblocks as u64) as usize;
        let mut t = g.rng.below(if last { 6 } else { 16 });
        if g.rng.chance(1, 25) {
            // rare: dangling jump / call targets, a last block without any jump
            t = 16 + g.rng.below(if last { 2 } else { 3 });
        }
        match t {
            // terminators allowed everywhere
            0 | 1 => {
                if b == 0 || g.rng.chance(1, 2) {
                    // proper epilogue only if a prologue was emitted; random otherwise
                    ins.extend(g.epilogue(frame));
                } else {
                    ins.push(g.ret());
                }
            }
            2 => ins.push(g.term(Tm::Jmp(target))),
            3 => {
                if nfuncs > 0 && g.rng.chance(1, 2) {
                    let tf = g.rng.below(nfuncs as u64) as usize;
                    ins.push(g.term(Tm::TailJmp(tf)));
                } else {
                    ins.push(g.term(Tm::Jmp(target)));
                }
            }
            4 => {
                let nm = if lkm { "panic" } else { *g.rng.pick(&["exit", "abort", "__stack_chk_fail"]) };
                let nm = if nm == "panic" { "abort" } else { nm };
                ins.push(g.mov_r32i("RDI", 1));
                ins.push(g.call_ext(nm));
            }
            5 => {
                let hints: Vec<usize> = (0..g.rng.below(4)).map(|_| g.rng.below(nblocks as u64) as usize).collect();
                let r = *g.rng.pick(&["RAX", "RDX", "RCX"]);
                ins.push(g.term(Tm::JmpInd(V::Reg(r, 8), hints)));
            }
            // terminators that need a following block
            6 | 7 | 8 => {
                let (a, bb) = (*g.rng.pick(&["RAX", "RBX", "RCX", "RDI", "RSI"]), g.rng.biased(8));
                let c = if g.rng.chance(1, 2) { g.cmp(V::Reg(a, 8), V::Const(bb, 8)) } else { g.test(reg(a, 4), reg(a, 4)) };
                ins.push(c);
                let cond = match g.rng.below(4) {
                    0 => V::Reg("ZF", 1),
                    1 => V::Reg("CF", 1),
                    2 => {
                        // JNZ: condition is a temporary computed in the jump instruction itself
                        let t = g.tmp(1);
                        let mut j = g.term(Tm::Jcc(t.clone(), target));
                        j.ops.push(op(t, "BOOL_NEGATE", vec![V::Reg("ZF", 1)]));
                        ins.push(j);
                        blocks.push(BlockG { ins, suffix: None });
                        continue;
                    }
                    _ => {
                        // JL: SF != OF
                        let t = g.tmp(1);
                        let mut j = g.term(Tm::Jcc(t.clone(), target));
                        j.ops.push(op(t, "INT_NOTEQUAL", vec![V::Reg("OF", 1), V::Reg("SF", 1)]));
                        ins.push(j);
                        blocks.push(BlockG { ins, suffix: None });
                        continue;
                    }
                };
                ins.push(g.term(Tm::Jcc(cond, target)));
            }
            9 | 10 => {
                let pool: &[&'static str] = if lkm { &EXT_POOL_LKM } else { &EXT_POOL };
                let nm = *g.rng.pick(pool);
                // argument setup
                for k in 0..g.rng.below(4) as usize {
                    let i = match g.rng.below(5) {
                        0 => {
                            let o = -8 * (1 + g.rng.below(10) as i64);
                            g.lea(PARAM_REGS[k], "RBP", o)
                        }
                        1 => {
                            let lit = *g.rng.pick(&["%d items", "%s", "/etc/passwd", "x", ""]);
                            let s = g.rostr(lit);
                            g.mov_ri(PARAM_REGS[k], s)
                        }
                        2 => {
                            let v = g.rng.biased(16);
                            g.mov_r32i(PARAM_REGS[k], v)
                        }
                        3 => {
                            let r = *g.rng.pick(&["RAX", "RBX", "R12"]);
                            g.mov_rr(PARAM_REGS[k], r)
                        }
                        _ => {
                            let o = -8 * (1 + g.rng.below(10) as i64);
                            g.load(PARAM_REGS[k], 8, "RBP", o)
                        }
                    };
                    ins.push(i);
                }
                // format string functions: a (possibly odd) format string at the right parameter position
                let fmt_idx = match nm {
                    "printf" | "scanf" => Some(0),
                    "sprintf" => Some(1),
                    _ => None,
                };
                if let Some(k) = fmt_idx {
                    const FORMATS: [&[u8]; 16] = [
                        b"%s\0", b"%d %s\0", b"%5.2f|%lu|%%|%c\0", b"%\0", b"%%\0", b"100%%d %s\0", b"%n%n\0", b"%zu %hhd %llx\0",
                        b"%*d %-08.3s\0", b"\xff\xfe%s\0", b"\0", b"no conversion\0", b"%s%s%s%s%s%s%s%s%s%s\0", b"%ls %p %e %g\0",
                        b"%[a-z] %[^\n]\0", b"%s",
                    ];
                    let f = *g.rng.pick(&FORMATS);
                    let v = if g.rng.chance(1, 6) { g.datastr("%s %d") } else { g.robytes(f) };
                    ins.push(g.mov_ri(PARAM_REGS[k], v));
                    if g.rng.chance(1, 2) {
                        ins.push(g.mov_r32i("RAX", 0));
                    }
                }
                ins.push(g.call_ext(nm));
            }
            11 | 12 => {
                let tf = g.rng.below(nfuncs.max(1) as u64) as usize;
                ins.push(g.call_sub(tf));
            }
            13 => {
                let v = if g.rng.chance(1, 2) { V::Reg("RAX", 8) } else { V::Ram(DATA_TAG + 8 * g.rng.below(4), 8) };
                ins.push(g.call_ind(v));
            }
            16 => {
                let x = 8 * g.rng.below(8);
                ins.push(g.term(Tm::JmpDangling(x)));
            }
            17 => {
                // the function's code simply ends (no jump at all in its last block)
                if !last {
                    ins.push(g.term(Tm::Jmp(target)));
                } else if ins.is_empty() {
                    let i = g.random_ins();
                    ins.push(i);
                }
            }
            18 => {
                let x = 16 * g.rng.below(8);
                let mut c = g.term(Tm::CallDangling(x));
                c.ops = g.call_ops_pub();
                c.len = 5;
                ins.push(c);
            }
            14 => {
                let nm = *g.rng.pick(&["LOCK", "syscall", "rdtsc", "cpuid"]);
                let mut i = g.term(Tm::CallOther(nm));
                i.ops.clear();
                ins.push(i);
            }
            _ => {
                // block ends because the next instruction is a jump target
                if ins.is_empty() {
                    let i = g.random_ins();
                    ins.push(i);
                }
                let mut nop = g.term(Tm::Fall);
                nop.len = 0;
                ins.push(nop);
            }
        }
        if g.rng.chance(1, 6) {
            // non-existing labels for whatever the terminator carries (target, return, hints)
            if let Some(last_ins) = ins.iter_mut().rev().find(|i| i.term.is_some()) {
                last_ins.dangle = 1 + g.rng.below(7) as u8;
            }
        }
        blocks.push(BlockG { ins, suffix: None });
    }
    // an instruction with an intra-instruction conditional jump (CMOVcc): the extractor splits the block
    if g.rng.chance(1, 3) {
        let k = g.rng.below(blocks.len() as u64) as usize;
        let n = blocks[k].ins.len();
        let pos = g.rng.below(n as u64) as usize; // the CMOV is inserted before instruction `pos`
        let rest_len: u64 = blocks[k].ins[pos..].iter().map(|i| i.len).sum();
        if rest_len > 0 && blocks[k].suffix.is_none() {
            let rest = blocks[k].ins.split_off(pos);
            let t = g.tmp(1);
            let f = *g.rng.pick(&["ZF", "CF", "SF"]);
            let mut a_last = g.term(Tm::IntraJcc(t.clone()));
            a_last.ops.push(op(t, "BOOL_NEGATE", vec![V::Reg(f, 1)]));
            a_last.len = 0;
            blocks[k].ins.push(a_last);
            let (d, s2) = (*g.rng.pick(&["RAX", "RBX", "RCX", "RDX"]), *g.rng.pick(&["RSI", "RDI", "R8", "R12"]));
            let mut mv = g.mov_rr(d, s2);
            mv.len = 4;
            let mut fall = g.term(Tm::Fall);
            fall.len = 0;
            let bblk = BlockG { ins: vec![mv, fall], suffix: Some(3) };
            let cblk = BlockG { ins: rest, suffix: None };
            blocks.insert(k + 1, bblk);
            blocks.insert(k + 2, cblk);
            let shift = |t: &mut usize| {
                if *t > k {
                    *t += 2;
                }
            };
            for b in blocks.iter_mut() {
                for i in b.ins.iter_mut() {
                    match &mut i.term {
                        Some(Tm::Jmp(t)) | Some(Tm::Jcc(_, t)) => shift(t),
                        Some(Tm::JmpInd(_, hs)) => hs.iter_mut().for_each(|h| shift(h)),
                        _ => {}
                    }
                }
            }
            g.features.push("intra-instruction-jump".into());
        }
    }
    FuncG {
        no_blocks: false,
        name: format!("fn_{}", idx),
        blocks,
        shared: vec![],
        cconv: match g.rng.below(10) {
            0 => None,
            1 | 2 => Some("MSABI"),
            _ => Some("__stdcall"),
        },
    }
}

/// Zero-length `Fall` pseudo instructions share the address of the next block; give them the
/// address semantics the extractor has (the artificial jump is attributed to the last def).
fn fix_shared(_p: &mut ProgG) {}

/// Random multi-function program (C21/C23 exploration).
pub fn gen_random_program(rng: &mut Rng, kind: Kind, shared_blocks: bool, markers: u8) -> Input {
    let lkm = kind == Kind::Lkm;
    let mut g = Gen::new(rng, kind);
    g.prog.markers = markers;
    let nfuncs = 1 + g.rng.below(6) as usize;
    let mut funcs = Vec::new();
    for k in 0..nfuncs {
        let f = gen_random_function(&mut g, k, nfuncs, lkm);
        funcs.push(f);
    }
    if funcs.len() > 0 {
        funcs[0].name = if lkm { "init_module".into() } else { "main".into() };
    }
    // blocks Ghidra attributes to two functions (overlapping function bodies): function f jumps
    // into a block of function h and lists a copy of it.
    if shared_blocks && nfuncs >= 2 {
        let n = 1 + g.rng.below(3);
        for _ in 0..n {
            let f = g.rng.below(nfuncs as u64) as usize;
            let h = g.rng.below(nfuncs as u64) as usize;
            if f == h {
                continue;
            }
            let hb = g.rng.below(funcs[h].blocks.len() as u64) as usize;
            if hb == 0 {
                continue;
            }
            // closure of the shared block under intra-function successors is NOT taken: Ghidra
            // would list the whole reachable tail; emulate by sharing all blocks from hb onwards.
            let nb = funcs[h].blocks.len();
            // redirect one unconditional jump of f (or append a jumping block)
            let mut j = g.term(Tm::JmpForeign(h, hb));
            j.len = 5;
            let extra = g.random_ins();
            funcs[f].blocks.push(BlockG { ins: vec![extra, j], suffix: None });
            let newb = funcs[f].blocks.len() - 1;
            // make the new block reachable: retarget a random Jmp/Jcc of f to it
            let mut done = false;
            for b in funcs[f].blocks.iter_mut() {
                for i in b.ins.iter_mut() {
                    match &mut i.term {
                        Some(Tm::Jmp(t)) | Some(Tm::Jcc(_, t)) if !done => {
                            *t = newb;
                            done = true;
                        }
                        _ => {}
                    }
                }
            }
            for sb in hb..nb {
                if !funcs[f].shared.contains(&(h, sb)) {
                    funcs[f].shared.push((h, sb));
                }
            }
            g.features.push("shared-blocks".into());
        }
    }
    if g.rng.chance(1, 4) {
        g.prog.debug_section = true;
    }
    if nfuncs >= 2 && g.rng.chance(1, 8) {
        // a function without code blocks; only if no other function lists one of its blocks
        let f = 1 + g.rng.below(nfuncs as u64 - 1) as usize;
        if !funcs.iter().any(|x| x.shared.iter().any(|(h, _)| *h == f)) {
            funcs[f].no_blocks = true;
            g.features.push("function-without-blocks".into());
        }
    }
    g.prog.funcs = funcs;
    g.finish()
}

// ------------------------------------------------------------------------------------------
// recipes: a generated input is reproducible from a few parameters + the PRNG state

#[derive(Clone, Debug)]
pub struct Recipe {
    /// "gadget" or "random"
    pub g: String,
    pub state: u64,
    pub kind: Kind,
    pub gadgets: Vec<String>,
    pub split: bool,
    pub extra: usize,
    /// use the kernel-module configuration (and kernel function names in the gadgets)
    pub cfg_lkm: bool,
    pub shared: bool,
    /// relocatable objects: kernel-module marker sections present (bit 0 `.modinfo`, bit 1 `.gnu.linkonce.this_module`)
    pub markers: u8,
}

impl Recipe {
    pub fn json(&self) -> Value {
        json!({"g": self.g, "state": self.state,
               "kind": match self.kind { Kind::Exec => "exec", Kind::Pie => "pie", Kind::Lkm => "lkm" },
               "gadgets": self.gadgets, "split": self.split, "extra": self.extra, "cfg_lkm": self.cfg_lkm, "shared": self.shared, "markers": self.markers})
    }
    pub fn from_json(v: &Value) -> Recipe {
        Recipe {
            g: v["g"].as_str().unwrap_or("gadget").to_string(),
            state: v["state"].as_u64().unwrap(),
            kind: match v["kind"].as_str().unwrap() {
                "exec" => Kind::Exec,
                "lkm" => Kind::Lkm,
                _ => Kind::Pie,
            },
            gadgets: v["gadgets"].as_array().map(|a| a.iter().map(|s| s.as_str().unwrap().to_string()).collect()).unwrap_or_default(),
            split: v["split"].as_bool().unwrap_or(false),
            extra: v["extra"].as_u64().unwrap_or(0) as usize,
            cfg_lkm: v["cfg_lkm"].as_bool().unwrap_or(false),
            shared: v["shared"].as_bool().unwrap_or(false),
            markers: v["markers"].as_u64().unwrap_or(3) as u8,
        }
    }
    pub fn build(&self) -> Input {
        let mut rng = Rng(self.state);
        if self.g == "random" {
            gen_random_program(&mut rng, self.kind, self.shared, self.markers)
        } else if self.g == "special" {
            // the name of the hand-written program is carried in `gadgets[0]`
            gen_special(&mut rng, self.kind, self.gadgets.first().map(|s| s.as_str()).unwrap_or(""), self.markers)
        } else {
            let gs: Vec<&str> = self.gadgets.iter().map(|s| s.as_str()).collect();
            gen_gadget_program(&mut rng, self.kind, &gs, self.split, self.extra, self.cfg_lkm, self.markers)
        }
    }
    /// relocatable objects: both kernel-module marker sections (a kernel module), exactly one, or none
    pub fn random_markers(rng: &mut Rng, kind: Kind) -> u8 {
        if kind != Kind::Lkm {
            // executables / shared objects: usually no marker sections; sometimes both or one (bit 2 = emit them)
            return match rng.below(10) {
                0..=5 => 0,
                6 | 7 => 7,
                8 => 5,
                _ => 6,
            };
        }
        match rng.below(10) {
            0..=4 => 3,
            5 | 6 => 1,
            7 | 8 => 2,
            _ => 0,
        }
    }
    pub fn random_kind(rng: &mut Rng) -> Kind {
        match rng.below(10) {
            0..=3 => Kind::Pie,
            4..=6 => Kind::Exec,
            _ => Kind::Lkm,
        }
    }
    /// program built from check-trigger sequences (+ 0..2 random functions)
    pub fn random_gadget(rng: &mut Rng) -> Recipe {
        let kind = Recipe::random_kind(rng);
        let mut gadgets: Vec<String> = Vec::new();
        let dense = rng.chance(2, 3);
        for g in GADGETS.iter() {
            if rng.chance(if dense { 5 } else { 2 }, 6) {
                gadgets.push(g.to_string());
            }
        }
        // CWE332 fires only if `srand` is NOT imported, CWE337 needs `srand`: keep one of them
        if gadgets.iter().any(|g| g == "CWE332") && gadgets.iter().any(|g| g == "CWE337") {
            let drop = if rng.chance(1, 2) { "CWE332" } else { "CWE337" };
            gadgets.retain(|g| g != drop);
        }
        rng.shuffle(&mut gadgets);
        let markers = Recipe::random_markers(rng, kind);
        let cfg_lkm = kind == Kind::Lkm && markers & 3 == 3 && rng.chance(1, 2);
        Recipe { g: "gadget".into(), state: rng.next() | 1, kind, gadgets, split: rng.chance(1, 3), extra: rng.below(3) as usize, cfg_lkm, shared: false, markers }
    }
    pub fn special(name: &str, kind: Kind, state: u64) -> Recipe {
        Recipe { g: "special".into(), state: state | 1, kind, gadgets: vec![name.to_string()], split: false, extra: 0, cfg_lkm: false, shared: false, markers: 3 }
    }
    /// directed programs that are part of every run: one per jump kind with a non-existing label
    pub fn always_dangling() -> Vec<Recipe> {
        let mut v = Vec::new();
        for (i, k) in DANGLING_KINDS.iter().enumerate() {
            let kind = [Kind::Pie, Kind::Exec, Kind::Lkm][i % 3];
            v.push(Recipe::special(&format!("dangling:{}", k), kind, 1000 + i as u64));
            v.push(Recipe::special(&format!("dangling:{}@mid", k), kind, 2000 + i as u64));
        }
        v
    }
    /// … and one per check that picks one of several candidates, with two candidates on diverging paths
    pub fn always_diverge() -> Vec<Recipe> {
        let mut v = Vec::new();
        for (i, c) in DIVERGE_CHECKS.iter().enumerate() {
            v.push(Recipe::special(&format!("diverge:{}", c), [Kind::Pie, Kind::Exec][i % 2], 3000 + i as u64));
            v.push(Recipe::special(&format!("diverge2:{}", c), Kind::Pie, 4000 + i as u64));
        }
        v
    }
    /// … and per check one trigger inside a never-called function with several return sites
    pub fn always_isolated() -> Vec<Recipe> {
        let mut v = Vec::new();
        for (i, c) in GADGETS.iter().enumerate() {
            let variant = ["isolated", "isolated3", "isolatedind"][i % 3];
            v.push(Recipe::special(&format!("{}:{}", variant, c), [Kind::Pie, Kind::Exec][i % 2], 5000 + i as u64));
        }
        for (i, variant) in ["isolated", "isolated3", "isolatedind"].iter().enumerate() {
            v.push(Recipe::special(&format!("{}:CWE252", variant), Kind::Pie, 6000 + i as u64));
        }
        v
    }
    pub fn random_isolated(rng: &mut Rng) -> Recipe {
        let c = *rng.pick(&GADGETS);
        let variant = *rng.pick(&["isolated", "isolated3", "isolatedind"]);
        let kind = Recipe::random_kind(rng);
        Recipe::special(&format!("{}:{}", variant, c), kind, rng.next())
    }
    /// … use after free / double free with the free several call levels deep / in sibling chains / two objects
    pub fn always_uaf() -> Vec<Recipe> {
        UAF_VARIANTS.iter().enumerate().map(|(i, v)| Recipe::special(&format!("uaf:{}", v), [Kind::Pie, Kind::Exec][i % 2], 8000 + i as u64)).collect()
    }
    /// … deep expression chains, with and without same-name temporaries of different sizes
    pub fn always_chains() -> Vec<Recipe> {
        let mut v = Vec::new();
        for i in 0..6u64 {
            v.push(Recipe::special("twin_chain", [Kind::Pie, Kind::Exec, Kind::Lkm][(i % 3) as usize], 9000 + 2 * i));
        }
        for i in 0..3u64 {
            v.push(Recipe::special("deep_chain", [Kind::Pie, Kind::Exec, Kind::Lkm][(i % 3) as usize], 9100 + 2 * i));
        }
        v
    }
    pub fn random_twin_chain(rng: &mut Rng) -> Recipe {
        let kind = Recipe::random_kind(rng);
        Recipe::special("twin_chain", kind, rng.next())
    }
    pub fn random_deep_chain(rng: &mut Rng) -> Recipe {
        let kind = Recipe::random_kind(rng);
        Recipe::special("deep_chain", kind, rng.next())
    }
    pub fn random_diverge(rng: &mut Rng) -> Recipe {
        let c = *rng.pick(&DIVERGE_CHECKS);
        let name = if rng.chance(1, 2) { format!("diverge:{}", c) } else { format!("diverge2:{}", c) };
        let kind = Recipe::random_kind(rng);
        Recipe::special(&name, kind, rng.next())
    }
    /// overlapping function bodies with reporting instructions in the shared blocks
    pub fn random_shared(rng: &mut Rng) -> Recipe {
        let kind = Recipe::random_kind(rng);
        Recipe { g: "special".into(), state: rng.next() | 1, kind, gadgets: vec!["shared_null_deref".into()], split: false, extra: 0, cfg_lkm: false, shared: true, markers: 3 }
    }
    /// random multi-function program
    pub fn random_program(rng: &mut Rng) -> Recipe {
        let kind = Recipe::random_kind(rng);
        let markers = Recipe::random_markers(rng, kind);
        let cfg_lkm = kind == Kind::Lkm && markers & 3 == 3 && rng.chance(1, 2);
        Recipe { g: "random".into(), state: rng.next() | 1, kind, gadgets: vec![], split: false, extra: 0, cfg_lkm, shared: rng.chance(1, 2), markers }
    }
}

/// module names as the real CLI lists them (`--module-versions`)
pub fn cli_module_names(cli: &Path) -> Vec<String> {
    let r = run_module_versions(cli);
    let mut names = Vec::new();
    for l in r.stdout.lines().skip(1) {
        let parts: Vec<&str> = l.split('"').collect();
        if parts.len() >= 2 {
            names.push(parts[1].to_string());
        }
    }
    names
}

/// The checks that can run with the kernel-module configuration: it has parameters for a subset
/// only; a check outside of it is usable iff it runs on a trivial kernel module with that
/// configuration (checks that ignore their parameters) — determined by running the real CLI.
pub fn names_runnable_with_lkm_config(cli: &Path, root: &Path, all: &[String]) -> Vec<String> {
    let mut rng = Rng::new(7);
    let inp = gen_gadget_program(&mut rng, Kind::Lkm, &[], false, 0, true, 3);
    let files = write_input(root, 999_999, &inp);
    let ok: Vec<bool> = parallel(all, threads(), |_, n| run_cli(cli, &files, &config_path(true), Some(n), 60).exit == Some(0));
    all.iter().zip(ok).filter(|(_, o)| *o).map(|(n, _)| n.clone()).collect()
}

/// `file:line` of a Rust panic message in stderr, if any
pub fn panic_location(stderr: &str) -> String {
    if let Some(i) = stderr.find("panicked at ") {
        let rest = &stderr[i + 12..];
        let end = rest.find(|c: char| c == '\n' || c == ' ').unwrap_or(rest.len());
        let loc = rest[..end].trim_end_matches(':');
        // drop the column, keep file:line; strip directories
        let parts: Vec<&str> = loc.split(':').collect();
        let file = parts.first().map(|f| f.rsplit('/').next().unwrap_or(f)).unwrap_or("?");
        return format!("{}:{}", file, parts.get(1).unwrap_or(&"?"));
    }
    String::new()
}

/// first line of the message of a Rust panic in stderr, if any
pub fn panic_message(stderr: &str) -> String {
    if let Some(i) = stderr.find("panicked at ") {
        let rest = &stderr[i..];
        if let Some(nl) = rest.find('\n') {
            return rest[nl + 1..].lines().next().unwrap_or("").chars().take(160).collect();
        }
    }
    String::new()
}

/// Hand-written programs reproducing specific situations (corpus / regression inputs).
pub fn gen_special(rng: &mut Rng, kind: Kind, name: &str, markers: u8) -> Input {
    let mut g = Gen::new(rng, kind);
    g.prog.markers = markers;
    let mut funcs: Vec<FuncG> = Vec::new();
    match name {
        // f reads the word at [RSP+0] (the return-address slot) into a register and dereferences it:
        // the function signature analysis records a nested stack parameter
        "nested_stack_param" | "nested_stack_param_rbx" => {
            let r: &'static str = if name.ends_with("rbx") { "RBX" } else { "RDI" };
            let mut main_ins = g.prologue(0x20);
            main_ins.push(g.call_sub(1));
            main_ins.push(g.mov_r32i("RAX", 0));
            let mut ep = g.epilogue(0x20);
            let last = ep.pop().unwrap();
            main_ins.extend(ep);
            funcs.push(FuncG { name: "main".into(), blocks: to_blocks(main_ins, last), shared: vec![], cconv: Some("__stdcall"), no_blocks: false });
            let mut f_ins = vec![g.load(r, 8, "RSP", 0), g.load("R14", 8, r, 24)];
            f_ins.push(g.call_ext("tmpfile"));
            f_ins.push(g.store(r, 24, V::Reg("R9", 8)));
            f_ins.push(g.store("R14", 24, V::Reg("R15", 8)));
            let last = g.ret();
            funcs.push(FuncG { name: "f".into(), blocks: to_blocks(f_ins, last), shared: vec![], cconv: Some("MSABI"), no_blocks: false });
        }
        // a long chain `r1 = RAX op c; r2 = r1 op c; …` (deeper than the propagation limit of the optimiser) whose
        // end is used in a branch condition, load/store addresses and indirect jump/call/return targets
        "deep_chain" => {
            const R: [&str; 12] = ["RBX", "RCX", "RDX", "RSI", "R8", "R9", "R10", "R11", "R13", "R14", "R15", "RDI"];
            let mut b = g.prologue(0x30);
            b.push(g.mov_r32i("RDI", 0x40));
            b.push(g.call_ext("malloc"));
            let n = 9 + g.rng.below(4) as usize;
            let mut prev: &'static str = "RAX";
            let mut shift: i64 = 0;
            let linear = g.rng.chance(1, 2);
            for k in 0..n {
                let d = R[k];
                let c = 1 + g.rng.below(6);
                let mn = if linear {
                    if k % 2 == 0 { "INT_ADD" } else { "INT_SUB" }
                } else {
                    *g.rng.pick(&["INT_ADD", "INT_SUB", "INT_XOR", "INT_ADD", "INT_OR"])
                };
                // alternate the shape so that trivial folding does not shorten the chain
                let i = if k % 3 == 2 {
                    g.i(vec![op(r8(d), "INT_2COMP", vec![r8(prev)]), op(r8(d), "INT_2COMP", vec![r8(d)]), op(r8(d), mn, vec![r8(d), c8(c)])])
                } else {
                    g.i(vec![op(r8(d), mn, vec![r8(prev), c8(c)])])
                };
                if mn == "INT_ADD" { shift += c as i64 } else if mn == "INT_SUB" { shift -= c as i64 }
                b.push(i);
                prev = d;
            }
            // condition: `prev == shift`  (for a purely additive chain this is `RAX == 0`)
            b.push(g.cmp(r8(prev), c8(shift as u64)));
            match g.rng.below(3) {
                0 => b.push(g.load("R12", 8, prev, 0)),
                1 => b.push(g.store(prev, 8, V::Const(5, 8))),
                _ => {}
            }
            b.push(g.term(Tm::Jcc(V::Reg("ZF", 1), 0)));
            let mut seg_a = vec![g.store("RAX", 0, V::Const(0x41, 8)), g.load("R12", 8, "RAX", 8)];
            if g.rng.chance(1, 2) {
                seg_a.push(g.store(prev, 0, V::Const(1, 8)));
            }
            let mut seg_b = vec![g.store("RAX", 16, V::Const(0x42, 8))];
            if g.rng.chance(1, 2) {
                seg_b.push(g.load("R12", 8, prev, 16));
            }
            let mut seg_j = vec![g.mov_r32i("RAX", 0)];
            let mut ep = g.epilogue(0x30);
            let last = ep.pop().unwrap();
            seg_j.extend(ep);
            let tail_b = b.pop().unwrap();
            let b0 = to_blocks(b, tail_b);
            let ta = g.term(Tm::Jmp(0));
            let ba = to_blocks(seg_a, ta);
            let mut tb = g.term(Tm::Fall);
            tb.len = 0;
            let bb = to_blocks(seg_b, tb);
            let bj = to_blocks(seg_j, last);
            let (sa, sb) = (b0.len(), b0.len() + ba.len());
            let sj = sb + bb.len();
            let mut blocks: Vec<BlockG> = Vec::new();
            blocks.extend(b0);
            blocks.extend(ba);
            blocks.extend(bb);
            blocks.extend(bj);
            if let Some(Tm::Jcc(_, t)) = blocks[sa - 1].ins.last_mut().and_then(|i| i.term.as_mut()) {
                *t = sb;
            }
            if let Some(Tm::Jmp(t)) = blocks[sb - 1].ins.last_mut().and_then(|i| i.term.as_mut()) {
                *t = sj;
            }
            funcs.push(FuncG { name: "main".into(), blocks, shared: vec![], cconv: Some("__stdcall"), no_blocks: false });
        }
        // a check trigger inside a function that is never called directly (exported / only reachable through an
        // indirect call): its return sites are "isolated"; the function has 2 or 3 return instructions that the
        // values produced by the trigger reach.  "isolated:<check>", "isolated3:<check>", "isolatedind:<check>"
        n if n.starts_with("isolated") => {
            let variant = n.split(':').next().unwrap_or("isolated").to_string();
            let check = n.split(':').nth(1).unwrap_or("CWE252").to_string();
            let nret = if variant == "isolated3" { 3 } else { 2 };
            let mut main_ins = g.prologue(0x20);
            if variant == "isolatedind" {
                main_ins.push(g.i(vec![op(r8("RAX"), "COPY", vec![V::Ram(DATA_TAG, 8)])]));
                main_ins.push(g.call_ind(V::Reg("RAX", 8)));
            }
            main_ins.push(g.mov_r32i("RAX", 0));
            let mut ep = g.epilogue(0x20);
            let last = ep.pop().unwrap();
            main_ins.extend(ep);
            funcs.push(FuncG { name: "main".into(), blocks: to_blocks(main_ins, last), shared: vec![], cconv: Some("__stdcall"), no_blocks: false });
            let lkm = kind == Kind::Lkm && false;
            let mut w = g.prologue(0x70);
            w.push(g.store("RBP", -0x18, V::Reg("RDI", 8)));
            if check == "CWE252" {
                let s = g.rostr("42");
                w.push(g.mov_ri("RDI", s));
                w.push(g.call_ext("atoi"));
                w.push(g.mov_rr("RBX", "RAX"));
                w.push(g.mov_r32i("RAX", 0));
            } else {
                w.extend(g.gadget(&check, lkm));
                w.push(g.mov_rr("RBX", "RAX"));
            }
            w.push(g.test(reg("R13", 4), reg("R13", 4)));
            // blocks: [.. jcc -> C] [D: ret] [C: (jcc -> E) ret] [E: ret]
            let t0 = g.term(Tm::Jcc(V::Reg("ZF", 1), 0));
            let mut blocks = to_blocks(w, t0);
            let jcc_blk = blocks.len() - 1;
            let d = g.epilogue(0x70);
            blocks.push(BlockG { ins: d, suffix: None });
            let c_idx = blocks.len();
            if let Some(Tm::Jcc(_, t)) = blocks[jcc_blk].ins.last_mut().and_then(|i| i.term.as_mut()) {
                *t = c_idx;
            }
            if nret == 3 {
                let c = vec![g.test(reg("R14", 4), reg("R14", 4)), g.term(Tm::Jcc(V::Reg("ZF", 1), c_idx + 2))];
                blocks.push(BlockG { ins: c, suffix: None });
                let c2 = g.epilogue(0x70);
                blocks.push(BlockG { ins: c2, suffix: None });
                let e = g.epilogue(0x70);
                blocks.push(BlockG { ins: e, suffix: None });
            } else {
                let c = g.epilogue(0x70);
                blocks.push(BlockG { ins: c, suffix: None });
            }
            funcs.push(FuncG { name: "exported_worker".into(), blocks, shared: vec![], cconv: Some("__stdcall"), no_blocks: false });
        }
        // use after free / double free where the `free` lies several call levels below the access, in a sibling
        // call chain, or where the accessed pointer may be one of two freed objects: the CWE416/CWE415 warning then
        // lists several call TIDs / several objects as context
        n if n.starts_with("uaf:") => {
            let variant = n["uaf:".len()..].to_string();
            // helper: a function that only forwards its first parameter to function `callee` (or to extern `ext`)
            let forward = |g: &mut Gen, name: &str, callee: Option<usize>, ext: Option<&'static str>| -> FuncG {
                let mut ins = g.prologue(0);
                match (callee, ext) {
                    (Some(f), _) => ins.push(g.call_sub(f)),
                    (None, Some(e)) => ins.push(g.call_ext(e)),
                    _ => {}
                }
                let mut ep = g.epilogue(0);
                let last = ep.pop().unwrap();
                ins.extend(ep);
                FuncG { name: name.to_string(), blocks: to_blocks(ins, last), shared: vec![], cconv: Some("__stdcall"), no_blocks: false }
            };
            let depth = if variant == "deep3" { 3 } else { 2 };
            let mut m = g.prologue(0x30);
            // functions: 0 main, 1..=depth release chain (last one frees), then optional extra chains
            match variant.as_str() {
                "sibling" => {
                    // allocation in a callee chain (3 -> 4 -> malloc), release in another one (1 -> 2 -> free)
                    m.push(g.mov_r32i("RDI", 0x18));
                    m.push(g.call_sub(3));
                }
                _ => {
                    m.push(g.mov_r32i("RDI", 0x10));
                    m.push(g.call_ext("malloc"));
                }
            }
            m.push(g.mov_rr("R12", "RAX"));
            if variant == "twoobjects" {
                m.push(g.mov_r32i("RDI", 0x20));
                m.push(g.call_ext("malloc"));
                m.push(g.mov_rr("R13", "RAX"));
            }
            m.push(g.mov_rr("RDI", "R12"));
            m.push(g.call_sub(1));
            if variant == "twoobjects" {
                m.push(g.mov_rr("RDI", "R13"));
                m.push(g.call_sub(3));
                // R14 = one of the two (freed) objects
                m.push(g.mov_rr("R14", "R12"));
                m.push(g.test(reg("RBX", 4), reg("RBX", 4)));
                let t = g.term(Tm::Jcc(V::Reg("ZF", 1), 0));
                let mut blocks = to_blocks(m, t);
                let jb = blocks.len() - 1;
                let mut alt = vec![g.mov_rr("R14", "R13")];
                let mut f = g.term(Tm::Fall);
                f.len = 0;
                alt.push(f);
                blocks.push(BlockG { ins: alt, suffix: None });
                let join = blocks.len();
                if let Some(Tm::Jcc(_, t)) = blocks[jb].ins.last_mut().and_then(|i| i.term.as_mut()) {
                    *t = join;
                }
                let mut tail = vec![g.load("RAX", 8, "R14", 0), g.store("R14", 8, V::Const(7, 8)), g.mov_r32i("RAX", 0)];
                tail.extend(g.epilogue(0x30));
                blocks.push(BlockG { ins: tail, suffix: None });
                funcs.push(FuncG { name: "main".into(), blocks, shared: vec![], cconv: Some("__stdcall"), no_blocks: false });
                funcs.push(forward(&mut g, "release_a", Some(2), None));
                funcs.push(forward(&mut g, "release_a_inner", None, Some("free")));
                funcs.push(forward(&mut g, "release_b", Some(4), None));
                funcs.push(forward(&mut g, "release_b_inner", None, Some("free")));
            } else {
                if variant == "double" {
                    m.push(g.mov_rr("RDI", "R12"));
                    m.push(g.call_ext("free"));
                } else {
                    m.push(g.load("RAX", 8, "R12", 0));
                    m.push(g.store("R12", 8, V::Const(7, 8)));
                }
                m.push(g.mov_r32i("RAX", 0));
                let mut ep = g.epilogue(0x30);
                let last = ep.pop().unwrap();
                m.extend(ep);
                funcs.push(FuncG { name: "main".into(), blocks: to_blocks(m, last), shared: vec![], cconv: Some("__stdcall"), no_blocks: false });
                if depth == 3 {
                    funcs.push(forward(&mut g, "outer", Some(2), None));
                    funcs.push(forward(&mut g, "middle", Some(3), None));
                    funcs.push(forward(&mut g, "inner", None, Some("free")));
                } else {
                    funcs.push(forward(&mut g, "outer", Some(2), None));
                    funcs.push(forward(&mut g, "inner", None, Some("free")));
                    if variant == "sibling" {
                        funcs.push(forward(&mut g, "make", Some(4), None));
                        funcs.push(forward(&mut g, "make_inner", None, Some("malloc")));
                    }
                }
            }
        }
        // two temporaries with the SAME unique id but different sizes (`$Uxxxx:4` / `$Uxxxx:8`): the narrow one gets
        // an expression deeper than the propagation limit, the other one is defined from it and then used in memory
        // accesses / indirect jump, call and return targets, followed by accesses that checks report on
        "twin_chain" => {
            const R: [&str; 11] = ["RBX", "RCX", "RDX", "RSI", "R8", "R9", "R10", "R11", "R13", "R14", "R15"];
            let mut b = g.prologue(0x30);
            b.push(g.mov_r32i("RDI", 0x40));
            b.push(g.call_ext("malloc"));
            // exactly 9 operations of kinds that no simplification rule merges: the expression of the last register has
            // depth 9 (still inserted), the one of the first twin depth 10 (not inserted into later assignments any more)
            let n = 9usize;
            let wide_first = g.rng.chance(1, 2);
            // (narrow size, wide size): the chain runs on the size of the twin that is defined first
            let (s_first, s_second) = if wide_first { (8u64, 4u64) } else { (4u64, 8u64) };
            let mut prev: V = reg("RAX", s_first);
            for k in 0..n {
                let d = reg(R[k], s_first);
                let c = 1 + g.rng.below(6);
                let mn = ["INT_ADD", "INT_XOR", "INT_SUB", "INT_XOR"][k % 4];
                let i = g.i(vec![op(d.clone(), mn, vec![prev.clone(), V::Const(c, s_first)])]);
                b.push(i);
                prev = d;
            }
            let id = 0x1000 + 0x80 * g.rng.below(8);
            let t_first = V::Tmp(id, s_first);
            let t_second = V::Tmp(id, s_second);
            let second_def = if wide_first {
                op(t_second.clone(), "SUBPIECE", vec![t_first.clone(), V::Const(0, 4)])
            } else {
                let mn = if g.rng.chance(1, 2) { "INT_ZEXT" } else { "INT_SEXT" };
                op(t_second.clone(), mn, vec![t_first.clone()])
            };
            let wide = if wide_first { t_first.clone() } else { t_second.clone() };
            let narrow = if wide_first { t_second.clone() } else { t_first.clone() };
            // the instruction that defines both twins and uses them
            // (an operation kind that the simplifier does not merge with the last one of the chain)
            let mut ops = vec![op(t_first.clone(), "INT_OR", vec![prev.clone(), V::Const(1, s_first)]), second_def];
            let use_kind = g.rng.below(6);
            match use_kind {
                0 => ops.push(op(r8("R12"), "LOAD", vec![space(), wide.clone()])),
                1 => ops.push(POp { out: None, mn: "STORE", ins: vec![space(), wide.clone(), V::Const(5, 8)] }),
                2 => ops.push(POp { out: None, mn: "STORE", ins: vec![space(), r8("RSP"), wide.clone()] }),
                3 => ops.push(POp { out: None, mn: "STORE", ins: vec![space(), r8("RAX"), narrow.clone()] }),
                _ => {}
            }
            b.push(g.i(ops));
            // accesses through the allocated object afterwards
            b.push(g.store("RAX", 0, V::Const(0x41, 8)));
            b.push(g.load("R12", 8, "RAX", 8));
            let tail = match use_kind {
                4 => g.call_ind(wide.clone()),
                5 => g.term(Tm::JmpInd(wide.clone(), vec![])),
                _ => {
                    let mut t = g.term(Tm::Jmp(0));
                    t.len = 2;
                    t
                }
            };
            let is_jmp = matches!(tail.term, Some(Tm::Jmp(_)));
            let mut blocks = to_blocks(b, tail);
            let nb = blocks.len();
            if is_jmp {
                if let Some(Tm::Jmp(t)) = blocks[nb - 1].ins.last_mut().and_then(|i| i.term.as_mut()) {
                    *t = nb;
                }
            }
            let mut seg_j = vec![g.store("RAX", 16, V::Const(0x42, 8)), g.mov_r32i("RAX", 0)];
            seg_j.extend(g.epilogue(0x30));
            blocks.push(BlockG { ins: seg_j, suffix: None });
            funcs.push(FuncG { name: "main".into(), blocks, shared: vec![], cconv: Some("__stdcall"), no_blocks: false });
        }
        // one jump kind with a label that points to an address without block / function
        n if n.starts_with("dangling:") => {
            let spec = &n["dangling:".len()..];
            let (kind, mid) = match spec.strip_suffix("@mid") {
                Some(k) => (k, 4u8),
                None => (spec, 0u8),
            };
            let mut b0 = g.prologue(0x20);
            b0.push(g.mov_r32i("RAX", 7));
            let mut t: Ins = match kind {
                "branch" => { let mut t = g.term(Tm::Jmp(1)); t.dangle = 1; t }
                "cbranch_target" | "cbranch_fall" => {
                    b0.push(g.cmp(V::Reg("RDI", 8), V::Const(3, 8)));
                    let mut t = g.term(Tm::Jcc(V::Reg("ZF", 1), 1));
                    t.dangle = if kind == "cbranch_target" { 1 } else { 2 };
                    t
                }
                "call_target" => { let mut t = g.call_sub(1); t.dangle = 1; t }
                "call_return" => { let mut t = g.call_sub(1); t.dangle = 2; t }
                "callext_return" => { let mut t = g.call_ext("strlen"); t.dangle = 2; t }
                "callind_return" => { let mut t = g.call_ind(V::Reg("RAX", 8)); t.dangle = 2; t }
                "callother_return" => { let mut t = g.term(Tm::CallOther("syscall")); t.dangle = 2; t }
                _ => { let mut t = g.term(Tm::JmpInd(V::Reg("RAX", 8), vec![1])); t.dangle = 1; t }
            };
            t.dangle |= mid;
            if t.len < 2 {
                t.len = 2;
            }
            b0.push(t);
            let mut b1 = vec![g.mov_r32i("RAX", 0)];
            b1.extend(g.epilogue(0x20));
            funcs.push(FuncG { name: "main".into(), blocks: vec![BlockG { ins: b0, suffix: None }, BlockG { ins: b1, suffix: None }],
                shared: vec![], cconv: Some("__stdcall"), no_blocks: false });
            let h = vec![g.mov_r32i("RAX", 1), g.ret()];
            funcs.push(FuncG { name: "helper".into(), blocks: vec![BlockG { ins: h, suffix: None }], shared: vec![], cconv: Some("__stdcall"), no_blocks: false });
        }
        // a check that reports ONE of several candidates gets two equally eligible candidates on diverging
        // paths ("diverge:<check>": in main; "diverge2:<check>": in two helper functions as well)
        n if n.starts_with("diverge:") || n.starts_with("diverge2:") => {
            let two = n.starts_with("diverge2:");
            let check = n.split(':').nth(1).unwrap_or("CWE367").to_string();
            if two {
                let mut main_ins = g.prologue(0x20);
                main_ins.push(g.call_sub(1));
                main_ins.push(g.call_sub(2));
                main_ins.push(g.mov_r32i("RAX", 0));
                let mut ep = g.epilogue(0x20);
                let last = ep.pop().unwrap();
                main_ins.extend(ep);
                funcs.push(FuncG { name: "main".into(), blocks: to_blocks(main_ins, last), shared: vec![], cconv: Some("__stdcall"), no_blocks: false });
                let f1 = g.diverge_fn(&check, "worker_a");
                funcs.push(f1);
                let f2 = g.diverge_fn(&check, "worker_b");
                funcs.push(f2);
            } else {
                let f = g.diverge_fn(&check, "main");
                funcs.push(f);
            }
        }
        // several functions jump into a chain of blocks of one function and list these blocks as their own
        // (overlapping function bodies); the shared blocks contain accesses that make checks report at
        // their addresses, so that the original and the duplicated blocks produce same-address warnings
        "shared_null_deref" => {
            let nshared = 2 + g.rng.below(4) as usize;
            let nusers = 1 + g.rng.below(3) as usize;
            // function 0: owner
            let mut blocks: Vec<BlockG> = Vec::new();
            let mut b0 = g.prologue(0x20);
            let mut j = g.term(Tm::Jmp(1));
            j.len = 2;
            b0.push(j);
            blocks.push(BlockG { ins: b0, suffix: None });
            for k in 0..nshared {
                let mut ins = Vec::new();
                match g.rng.below(3) {
                    0 => {
                        ins.push(g.mov_r32i("RCX", 0));
                        ins.push(g.load("RDX", 8, "RCX", 0x10));
                    }
                    1 => {
                        ins.push(g.mov_r32i("RDI", 0x20));
                        ins.push(g.call_ext("malloc"));
                        blocks.push(BlockG { ins, suffix: None });
                        ins = vec![g.store("RAX", 0, V::Const(1, 8))];
                    }
                    _ => {
                        let i = g.random_ins();
                        ins.push(i);
                        ins.push(g.mov_r32i("RAX", 0));
                        ins.push(g.load("RDX", 4, "RAX", 8));
                    }
                }
                if k + 1 == nshared {
                    ins.extend(g.epilogue(0x20));
                } else {
                    let mut f = g.term(Tm::Fall);
                    f.len = 0;
                    ins.push(f);
                }
                blocks.push(BlockG { ins, suffix: None });
            }
            let nb = blocks.len();
            funcs.push(FuncG { name: "main".into(), blocks, shared: vec![], cconv: Some("__stdcall"), no_blocks: false });
            for u in 0..nusers {
                let entry = 1 + g.rng.below(nb as u64 - 1) as usize;
                let mut ins = g.prologue(0x20);
                for _ in 0..g.rng.below(3) {
                    let i = g.random_ins();
                    ins.push(i);
                }
                let mut j = g.term(Tm::JmpForeign(0, entry));
                j.len = 5;
                ins.push(j);
                let shared: Vec<(usize, usize)> = (entry..nb).map(|b| (0, b)).collect();
                funcs.push(FuncG { name: format!("user_{}", u), blocks: vec![BlockG { ins, suffix: None }], shared, cconv: Some("__stdcall"), no_blocks: false });
            }
        }
        _ => {
            let ins = vec![g.mov_r32i("RAX", 0)];
            let last = g.ret();
            funcs.push(FuncG { name: "main".into(), blocks: to_blocks(ins, last), shared: vec![], cconv: Some("__stdcall"), no_blocks: false });
        }
    }
    g.prog.funcs = funcs;
    g.features.push(format!("special:{}", name));
    g.finish()
}
