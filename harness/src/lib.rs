//! Shared plumbing of the correspondence harnesses.
//!
//! Every harness binary `h_cXX` drives the REAL `cwe_checker_lib` code in-process and writes one
//! case per line (input + canonicalised implementation output) to `--cases`, and a statistics
//! record to `--stats`. The Lean driver of the property reads the same lines.
//!
//! All random choices derive from one xorshift state seeded by `--seed`.

use std::collections::{BTreeMap, HashSet};
use std::hash::{Hash, Hasher};
use std::io::{BufRead, BufWriter, Write};

pub use serde_json::{json, Value};

pub mod ir;

/// xorshift64* PRNG; the only source of randomness in the harnesses.
#[derive(Clone)]
pub struct Rng(pub u64);

impl Rng {
    pub fn new(seed: u64) -> Rng {
        let mut r = Rng(seed.wrapping_mul(0x9E3779B97F4A7C15) ^ 0xD1B54A32D192ED03);
        if r.0 == 0 {
            r.0 = 0x1234_5678_9abc_def1;
        }
        for _ in 0..4 {
            r.next();
        }
        r
    }
    pub fn next(&mut self) -> u64 {
        let mut x = self.0;
        x ^= x >> 12;
        x ^= x << 25;
        x ^= x >> 27;
        self.0 = x;
        x.wrapping_mul(0x2545F4914F6CDD1D)
    }
    /// uniform in 0..n (n > 0)
    pub fn below(&mut self, n: u64) -> u64 {
        self.next() % n
    }
    pub fn range(&mut self, lo: i64, hi: i64) -> i64 {
        lo + (self.below((hi - lo + 1) as u64) as i64)
    }
    pub fn chance(&mut self, num: u64, den: u64) -> bool {
        self.below(den) < num
    }
    pub fn pick<'a, T>(&mut self, xs: &'a [T]) -> &'a T {
        &xs[self.below(xs.len() as u64) as usize]
    }
    pub fn shuffle<T>(&mut self, xs: &mut [T]) {
        for i in (1..xs.len()).rev() {
            let j = self.below(i as u64 + 1) as usize;
            xs.swap(i, j);
        }
    }
    /// A value of `bits` bits biased towards sign/overflow boundaries.
    pub fn biased(&mut self, bits: u32) -> u64 {
        let mask = if bits >= 64 { u64::MAX } else { (1u64 << bits) - 1 };
        let min = 1u64 << (bits - 1);
        let v = match self.below(12) {
            0 => 0,
            1 => 1,
            2 => mask,
            3 => min,
            4 => min - 1,
            5 => min + 1,
            6 => mask - 1,
            7 => 1u64 << self.below(bits as u64),
            8 => (1u64 << self.below(bits as u64)).wrapping_sub(1),
            9 => self.below(16),
            _ => self.next(),
        };
        v & mask
    }
}

/// Command line of a harness binary.
pub struct Args {
    pub cases: String,
    pub stats: String,
    pub tier: String,
    pub seed: u64,
    pub replay: Option<String>,
    pub extra: BTreeMap<String, String>,
}

impl Args {
    pub fn parse() -> Args {
        let mut a = Args {
            cases: "cases.out".into(),
            stats: "stats.json".into(),
            tier: "quick".into(),
            seed: 1,
            replay: None,
            extra: BTreeMap::new(),
        };
        let v: Vec<String> = std::env::args().skip(1).collect();
        let mut i = 0;
        while i < v.len() {
            let k = v[i].trim_start_matches("--").to_string();
            let val = v.get(i + 1).cloned().unwrap_or_default();
            match k.as_str() {
                "cases" => a.cases = val,
                "stats" => a.stats = val,
                "tier" => a.tier = val,
                "seed" => a.seed = val.parse().expect("seed"),
                "replay" => a.replay = Some(val),
                _ => {
                    a.extra.insert(k, val);
                }
            }
            i += 2;
        }
        a
    }
    /// numeric extra argument `--name N`, with per-tier defaults.
    pub fn num(&self, name: &str, quick: u64, thorough: u64) -> u64 {
        if let Some(v) = self.extra.get(name) {
            return v.parse().expect("numeric argument");
        }
        match self.tier.as_str() {
            "quick" => quick,
            _ => thorough,
        }
    }
    /// The lines of the replay file (cases or corpus inputs), if `--replay` was given.
    pub fn replay_lines(&self) -> Option<Vec<String>> {
        self.replay.as_ref().map(|p| {
            let f = std::fs::File::open(p).expect("replay file");
            std::io::BufReader::new(f)
                .lines()
                .map(|l| l.unwrap())
                .filter(|l| !l.trim().is_empty() && !l.starts_with('#'))
                .collect()
        })
    }
}

/// Case writer + measured statistics.
pub struct Out {
    w: BufWriter<std::fs::File>,
    stats_path: String,
    pub evaluations: u64,
    distinct: HashSet<u64>,
    pub rule: String,
    pub samples: Vec<String>,
    pub dist: BTreeMap<String, u64>,
    pub exhaustive: bool,
    sample_every: u64,
}

impl Out {
    pub fn new(args: &Args, rule: &str) -> Out {
        Out {
            w: BufWriter::with_capacity(1 << 20, std::fs::File::create(&args.cases).expect("cases file")),
            stats_path: args.stats.clone(),
            evaluations: 0,
            distinct: HashSet::new(),
            rule: rule.to_string(),
            samples: Vec::new(),
            dist: BTreeMap::new(),
            exhaustive: false,
            sample_every: 1,
        }
    }
    /// Write one case line. `nontrivial_key`: Some(key) if the case is non-trivial by the
    /// property's rule; distinct keys are counted.
    pub fn case(&mut self, line: &str, nontrivial_key: Option<&str>) {
        debug_assert!(!line.contains('\n'));
        self.w.write_all(line.as_bytes()).unwrap();
        self.w.write_all(b"\n").unwrap();
        self.evaluations += 1;
        if let Some(k) = nontrivial_key {
            let mut h = std::collections::hash_map::DefaultHasher::new();
            k.hash(&mut h);
            self.distinct.insert(h.finish());
        }
        if self.evaluations % self.sample_every == 0 && self.samples.len() < 6 {
            let mut s = line.to_string();
            if s.len() > 500 {
                s.truncate(500);
                s.push_str("...");
            }
            self.samples.push(s);
            self.sample_every *= 7;
        }
    }
    pub fn count(&mut self, key: &str) {
        *self.dist.entry(key.to_string()).or_insert(0) += 1;
    }
    pub fn count_n(&mut self, key: &str, n: u64) {
        *self.dist.entry(key.to_string()).or_insert(0) += n;
    }
    pub fn finish(mut self) {
        self.w.flush().unwrap();
        let st = json!({
            "evaluations": self.evaluations,
            "distinct_nontrivial": self.distinct.len(),
            "rule": self.rule,
            "samples": self.samples,
            "distribution": self.dist,
            "exhaustive": self.exhaustive,
        });
        std::fs::write(&self.stats_path, serde_json::to_string(&st).unwrap()).unwrap();
    }
}

/// Run `f`, turning a panic into `Err(message)`.
pub fn catch<T>(f: impl FnOnce() -> T + std::panic::UnwindSafe) -> Result<T, String> {
    std::panic::catch_unwind(f).map_err(|e| {
        if let Some(s) = e.downcast_ref::<&str>() {
            s.to_string()
        } else if let Some(s) = e.downcast_ref::<String>() {
            s.clone()
        } else {
            "panic".to_string()
        }
    })
}

/// Silence the default panic hook (panics are caught per case and reported in the case line).
pub fn quiet_panics() {
    std::panic::set_hook(Box::new(|_| {}));
}

pub fn hex(bytes: &[u8]) -> String {
    let mut s = String::with_capacity(bytes.len() * 2);
    for b in bytes {
        s.push_str(&format!("{:02x}", b));
    }
    s
}
